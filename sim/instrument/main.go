// Command instrument rewrites Go packages (in place, in a SCRATCH COPY of the
// repository) so that their synchronisation points call into package zsimrt.
//
//	instrument -root <scratch repo root> -module github.com/acquirecloud/golibs pkgdir...
//
// Rules (DESIGN.md 2.2): sync.Mutex/RWMutex -> zsimrt types; go statements ->
// zsimrt.Go; a zsimrt.Yield before every statement with an atomic / channel
// operation; select -> switch zsimrt.Select(...); blocking receives ->
// zsimrt.Recv. It prints one JSON line of statistics per file.
package main

import (
	"bytes"
	"encoding/json"
	"flag"
	"fmt"
	"go/ast"
	"go/format"
	"go/parser"
	"go/token"
	"os"
	"path/filepath"
	"sort"
	"strconv"
	"strings"
)

type stats struct {
	File         string `json:"file"`
	Mutexes      int    `json:"mutexes"`
	Yields       int    `json:"yields"`
	GoStmts      int    `json:"go_stmts"`
	Selects      int    `json:"selects"`
	Recvs        int    `json:"recvs"`
	Uncontrolled int    `json:"uncontrolled_selects"`
	PkgVarYields int    `json:"pkg_var_yields"`
	ClockVars    int    `json:"clock_vars_reinit"`
	DenseYields  int    `json:"dense_yields"`
	SplitRMW     int    `json:"rmw_splits"`
	Timers       int    `json:"timer_sites"`
	MapAccesses  int    `json:"map_access_probes"`
	reinitFunc   string
	pkgName      string
}

var zeroVars bool

// unsafeObjs: names of package-level variables / struct fields holding an object unsafe for concurrent use (R14).
var unsafeObjs = map[string]bool{}

// mapFields: names of struct fields of map type in the package being rewritten (R12).
var mapFields = map[string]bool{}

type rewriter struct {
	tmpN       int
	noDense    int
	fset       *token.FileSet
	rel        string
	syncName   string
	atomicName string
	st         stats
	tmp        int
	needRT     bool
	pkgVars    map[string]bool         // names of package-level variables of this package
	pkgSpecs   map[*ast.ValueSpec]bool // their declarations in this file
	viaPkgVar  bool
}

const rtName = "zsimrt"

var atomicMethods = map[string]bool{"Load": true, "Store": true, "Swap": true, "CompareAndSwap": true, "Add": true, "And": true, "Or": true}

func main() {
	root := flag.String("root", "", "scratch repository root")
	module := flag.String("module", "github.com/acquirecloud/golibs", "module path")
	flag.BoolVar(&zeroVars, "zerovars", false, "also reset package-level variables declared without a value (process-wide lazily initialised state of a dependency) in ZverifReinitClockVars")
	flag.Parse()
	if *root == "" || flag.NArg() == 0 {
		fmt.Fprintln(os.Stderr, "usage: instrument -root DIR pkgdir...")
		os.Exit(2)
	}
	var all []stats
	for _, pkg := range flag.Args() {
		dir := filepath.Join(*root, pkg)
		ents, err := os.ReadDir(dir)
		if err != nil {
			fmt.Fprintln(os.Stderr, "instrument:", err)
			os.Exit(2)
		}
		// R7: names of the package-level variables (shared mutable state that is not
		// behind a recognisable synchronisation call)
		pkgVars := map[string]bool{}
		mapFields = map[string]bool{}
		unsafeObjs = map[string]bool{}
		for _, e := range ents {
			n := e.Name()
			if e.IsDir() || !strings.HasSuffix(n, ".go") || strings.HasSuffix(n, "_test.go") || strings.HasPrefix(n, "zverif_") {
				continue
			}
			f, err := parser.ParseFile(token.NewFileSet(), filepath.Join(dir, n), nil, 0)
			if err != nil {
				fmt.Fprintln(os.Stderr, "instrument:", err)
				os.Exit(2)
			}
			for _, d := range f.Decls {
				if gd, ok := d.(*ast.GenDecl); ok && gd.Tok == token.VAR {
					for _, sp := range gd.Specs {
						for _, id := range sp.(*ast.ValueSpec).Names {
							if id.Name != "_" {
								pkgVars[id.Name] = true
							}
						}
					}
				}
			}
			// R14: package-level variables and struct fields that are given an object which its
			// documentation declares unsafe for concurrent use (math/rand.Rand, bufio readers and
			// writers, ulid.MonotonicEntropy)
			unsafeCtors := map[string]bool{}
			for _, im := range f.Imports {
				ip, _ := strconv.Unquote(im.Path.Value)
				name := ""
				if im.Name != nil {
					name = im.Name.Name
				}
				switch ip {
				case "math/rand", "math/rand/v2":
					if name == "" {
						name = "rand"
					}
					unsafeCtors[name+".New"] = true
				case "bufio":
					if name == "" {
						name = "bufio"
					}
					unsafeCtors[name+".NewReader"] = true
					unsafeCtors[name+".NewWriter"] = true
				case "github.com/oklog/ulid/v2", "github.com/oklog/ulid":
					if name == "" {
						name = "ulid"
					}
					unsafeCtors[name+".Monotonic"] = true
				}
			}
			isCtor := func(e ast.Expr) bool {
				c, ok := e.(*ast.CallExpr)
				if !ok {
					return false
				}
				se, ok := c.Fun.(*ast.SelectorExpr)
				if !ok {
					return false
				}
				id, ok := se.X.(*ast.Ident)
				return ok && unsafeCtors[id.Name+"."+se.Sel.Name]
			}
			if len(unsafeCtors) > 0 {
				ast.Inspect(f, func(n ast.Node) bool {
					switch x := n.(type) {
					case *ast.ValueSpec:
						for i, v := range x.Values {
							if i < len(x.Names) && isCtor(v) {
								unsafeObjs[x.Names[i].Name] = true
							}
						}
					case *ast.AssignStmt:
						for i, v := range x.Rhs {
							if i >= len(x.Lhs) || !isCtor(v) {
								continue
							}
							switch l := x.Lhs[i].(type) {
							case *ast.SelectorExpr:
								unsafeObjs[l.Sel.Name] = true
							case *ast.Ident:
								unsafeObjs[l.Name] = true
							}
						}
					}
					return true
				})
			}
			// R12: names of struct fields of map type
			ast.Inspect(f, func(n ast.Node) bool {
				if st, ok := n.(*ast.StructType); ok && st.Fields != nil {
					for _, fl := range st.Fields.List {
						if _, isMap := fl.Type.(*ast.MapType); isMap {
							for _, id := range fl.Names {
								mapFields[id.Name] = true
							}
						}
					}
				}
				return true
			})
		}
		// R8: package-level variables whose initialiser reads the clock (directly or
		// through another such variable) get re-initialised inside the simulation, so
		// that no instant of the real clock leaks into simulated time
		clockRound := clockVars(dir, ents)
		var reinit []string
		pkgName := ""
		maxRound := -1
		for _, e := range ents {
			n := e.Name()
			if e.IsDir() || !strings.HasSuffix(n, ".go") || strings.HasSuffix(n, "_test.go") || strings.HasPrefix(n, "zverif_") {
				continue
			}
			st, err := processFile(filepath.Join(dir, n), filepath.ToSlash(filepath.Join(pkg, n)), *module, pkgVars, clockRound)
			if err != nil {
				fmt.Fprintln(os.Stderr, "instrument:", err)
				os.Exit(2)
			}
			if st.reinitFunc != "" {
				reinit = append(reinit, st.reinitFunc)
			}
			pkgName = st.pkgName
			all = append(all, st)
		}
		for _, r := range clockRound {
			if r > maxRound {
				maxRound = r
			}
		}
		var b strings.Builder
		fmt.Fprintf(&b, "package %s\n\n// ZverifReinitClockVars re-evaluates the package-level variables whose initialiser reads the clock.\nfunc ZverifReinitClockVars() {\n", pkgName)
		if len(reinit) > 0 {
			if maxRound < 0 {
				maxRound = 0
			}
			fmt.Fprintf(&b, "\tfor round := 0; round <= %d; round++ {\n", maxRound)
			for _, fn := range reinit {
				fmt.Fprintf(&b, "\t\t%s(round)\n", fn)
			}
			fmt.Fprintf(&b, "\t}\n")
		}
		fmt.Fprintf(&b, "}\n")
		if err := os.WriteFile(filepath.Join(dir, "zverif_reinit.go"), []byte(b.String()), 0o644); err != nil {
			fmt.Fprintln(os.Stderr, "instrument:", err)
			os.Exit(2)
		}
	}
	sort.Slice(all, func(i, j int) bool { return all[i].File < all[j].File })
	enc := json.NewEncoder(os.Stdout)
	for _, s := range all {
		enc.Encode(s)
	}
}

// clockVars returns, for the package-level variables of a package whose
// initialiser calls time.Now/Since/Until or mentions such a variable, the
// round in which they have to be re-evaluated (dependency order).
func clockVars(dir string, ents []os.DirEntry) map[string]int {
	type spec struct {
		names []string
		vals  []ast.Expr
		tname string
	}
	var specs []spec
	for _, e := range ents {
		n := e.Name()
		if e.IsDir() || !strings.HasSuffix(n, ".go") || strings.HasSuffix(n, "_test.go") || strings.HasPrefix(n, "zverif_") {
			continue
		}
		f, err := parser.ParseFile(token.NewFileSet(), filepath.Join(dir, n), nil, 0)
		if err != nil {
			continue
		}
		tname := timeImportName(f)
		for _, d := range f.Decls {
			if gd, ok := d.(*ast.GenDecl); ok && gd.Tok == token.VAR {
				for _, sp := range gd.Specs {
					vs := sp.(*ast.ValueSpec)
					if len(vs.Values) == 0 {
						continue
					}
					var names []string
					for _, id := range vs.Names {
						names = append(names, id.Name)
					}
					specs = append(specs, spec{names, vs.Values, tname})
				}
			}
		}
	}
	round := map[string]int{}
	for r := 0; r < 8; r++ {
		changed := false
		for _, sp := range specs {
			if _, done := round[sp.names[0]]; done {
				continue
			}
			hit := false
			for _, v := range sp.vals {
				if (r == 0 && readsClock(v, sp.tname)) || (r > 0 && mentions(v, round, r-1)) {
					hit = true
				}
			}
			if hit {
				for _, n := range sp.names {
					if n != "_" {
						round[n] = r
					}
				}
				if sp.names[0] == "_" {
					round["_"] = r
				}
				changed = true
			}
		}
		if !changed {
			break
		}
	}
	delete(round, "_")
	return round
}

func timeImportName(f *ast.File) string {
	for _, im := range f.Imports {
		if p, _ := strconv.Unquote(im.Path.Value); p == "time" {
			if im.Name != nil {
				return im.Name.Name
			}
			return "time"
		}
	}
	return ""
}

func readsClock(e ast.Expr, tname string) bool {
	if tname == "" {
		return false
	}
	found := false
	ast.Inspect(e, func(n ast.Node) bool {
		if _, ok := n.(*ast.FuncLit); ok {
			return false // evaluated when called, not at initialisation
		}
		if c, ok := n.(*ast.CallExpr); ok {
			if se, ok := c.Fun.(*ast.SelectorExpr); ok {
				if id, ok := se.X.(*ast.Ident); ok && id.Name == tname && (se.Sel.Name == "Now" || se.Sel.Name == "Since" || se.Sel.Name == "Until") {
					found = true
				}
			}
		}
		return true
	})
	return found
}

// mentions: does the expression (outside function literals) name a variable of exactly that round?
func mentions(e ast.Expr, round map[string]int, r int) bool {
	found := false
	ast.Inspect(e, func(n ast.Node) bool {
		switch x := n.(type) {
		case *ast.FuncLit:
			return false
		case *ast.SelectorExpr:
			ast.Inspect(x.X, func(m ast.Node) bool {
				if id, ok := m.(*ast.Ident); ok {
					if rr, ok := round[id.Name]; ok && rr == r {
						found = true
					}
				}
				return true
			})
			return false
		case *ast.Ident:
			if rr, ok := round[x.Name]; ok && rr == r {
				found = true
			}
		}
		return true
	})
	return found
}

func processFile(path, rel, module string, pkgVars map[string]bool, clockRound map[string]int) (stats, error) {
	fset := token.NewFileSet()
	f, err := parser.ParseFile(fset, path, nil, parser.ParseComments)
	if err != nil {
		return stats{}, err
	}
	rw := &rewriter{fset: fset, rel: rel, pkgVars: pkgVars, pkgSpecs: map[*ast.ValueSpec]bool{}}
	rw.st.File = rel
	rw.st.pkgName = f.Name.Name
	reinitByRound := map[int][]string{}
	for _, d := range f.Decls {
		if gd, ok := d.(*ast.GenDecl); ok && gd.Tok == token.VAR {
			for _, sp := range gd.Specs {
				vs := sp.(*ast.ValueSpec)
				rw.pkgSpecs[vs] = true
				if len(vs.Values) == 0 {
					continue
				}
				r, ok := -1, false
				for _, id := range vs.Names {
					if rr, is := clockRound[id.Name]; is {
						r, ok = rr, true
					}
				}
				if !ok {
					continue
				}
				pr := func(n ast.Node) string {
					var b bytes.Buffer
					format.Node(&b, fset, n)
					return b.String()
				}
				if len(vs.Values) == len(vs.Names) {
					for i, id := range vs.Names {
						if id.Name != "_" {
							reinitByRound[r] = append(reinitByRound[r], id.Name+" = "+pr(vs.Values[i]))
							rw.st.ClockVars++
						}
					}
				} else {
					var names []string
					for _, id := range vs.Names {
						names = append(names, id.Name)
					}
					reinitByRound[r] = append(reinitByRound[r], strings.Join(names, ", ")+" = "+pr(vs.Values[0]))
					rw.st.ClockVars++
				}
			}
		}
	}
	for _, im := range f.Imports {
		p, _ := strconv.Unquote(im.Path.Value)
		name := ""
		if im.Name != nil {
			name = im.Name.Name
		}
		switch p {
		case "sync":
			if name == "" {
				name = "sync"
			}
			rw.syncName = name
		case "sync/atomic":
			if name == "" {
				name = "atomic"
			}
			rw.atomicName = name
		}
	}
	// keep only comments before the package clause (build constraints)
	var keep []*ast.CommentGroup
	for _, cg := range f.Comments {
		if cg.End() < f.Package {
			keep = append(keep, cg)
		}
	}
	f.Comments = keep
	f.Doc = nil
	ast.Inspect(f, func(n ast.Node) bool {
		switch x := n.(type) {
		case *ast.GenDecl:
			x.Doc = nil
		case *ast.FuncDecl:
			x.Doc = nil
		case *ast.Field:
			x.Doc, x.Comment = nil, nil
		case *ast.TypeSpec:
			x.Doc, x.Comment = nil, nil
		case *ast.ValueSpec:
			x.Doc, x.Comment = nil, nil
		case *ast.ImportSpec:
			x.Doc, x.Comment = nil, nil
		}
		return true
	})

	// R1: types
	if rw.syncName != "" {
		ast.Inspect(f, func(n ast.Node) bool {
			if se, ok := n.(*ast.SelectorExpr); ok {
				if id, ok := se.X.(*ast.Ident); ok && id.Name == rw.syncName && id.Obj == nil {
					if se.Sel.Name == "Mutex" || se.Sel.Name == "RWMutex" || se.Sel.Name == "Pool" || se.Sel.Name == "Once" {
						se.X = ast.NewIdent(rtName)
						rw.st.Mutexes++
						rw.needRT = true
					}
				}
			}
			return true
		})
	}

	// R13: time.NewTimer / time.Timer go through the runtime, which gives the timer
	// channel either the semantics of Go >= 1.23 or the buffered one-tick channel of
	// earlier releases (what a main module with an older go line still gets)
	// R15: the global functions of math/rand are seeded from the runtime's entropy since Go 1.20:
	// a library that adds jitter to a pause would make the run depend on it. They draw from a
	// generator seeded by the run seed instead
	for _, im := range f.Imports {
		if ip, _ := strconv.Unquote(im.Path.Value); ip == "math/rand" {
			rn := "rand"
			if im.Name != nil {
				rn = im.Name.Name
			}
			randFns := map[string]bool{"Intn": true, "Int63n": true, "Int31n": true, "Int63": true, "Int31": true, "Int": true, "Float64": true, "Float32": true, "Uint32": true, "Uint64": true, "Perm": true, "Shuffle": true}
			used := false
			ast.Inspect(f, func(n ast.Node) bool {
				if se, ok := n.(*ast.SelectorExpr); ok {
					if id, ok := se.X.(*ast.Ident); ok && id.Name == rn && id.Obj == nil {
						if randFns[se.Sel.Name] {
							se.X = ast.NewIdent(rtName)
							se.Sel = ast.NewIdent("Rand" + se.Sel.Name)
							rw.needRT = true
						} else {
							used = true
						}
					}
				}
				return true
			})
			if !used {
				// keep the import used
				f.Decls = append(f.Decls, &ast.GenDecl{Tok: token.VAR, Specs: []ast.Spec{&ast.ValueSpec{
					Names: []*ast.Ident{ast.NewIdent("_")},
					Type:  &ast.StarExpr{X: &ast.SelectorExpr{X: ast.NewIdent(rn), Sel: ast.NewIdent("Rand")}},
				}}})
			}
		}
	}

	sleepRewritten := false
	if tn := timeImportName(f); tn != "" {
		defer func() {
			if sleepRewritten {
				// keep the import used
				f.Decls = append(f.Decls, &ast.GenDecl{Tok: token.VAR, Specs: []ast.Spec{&ast.ValueSpec{
					Names: []*ast.Ident{ast.NewIdent("_")},
					Type:  &ast.SelectorExpr{X: ast.NewIdent(tn), Sel: ast.NewIdent("Duration")},
				}}})
			}
		}()
		ast.Inspect(f, func(n ast.Node) bool {
			if se, ok := n.(*ast.SelectorExpr); ok {
				if id, ok := se.X.(*ast.Ident); ok && id.Name == tn && id.Obj == nil && (se.Sel.Name == "NewTimer" || se.Sel.Name == "Timer" || se.Sel.Name == "AfterFunc") {
					se.X = ast.NewIdent(rtName)
					rw.st.Timers++
					rw.needRT = true
				}
				// time.Sleep is a scheduling point (and a sleep that teardown can end), not a
				// goroutine the simulator has lost sight of for a while
				if id, ok := se.X.(*ast.Ident); ok && id.Name == tn && id.Obj == nil && se.Sel.Name == "Sleep" {
					se.X = ast.NewIdent(rtName)
					se.Sel = ast.NewIdent("TimeSleep")
					rw.st.Timers++
					rw.needRT = true
					sleepRewritten = true
				}
			}
			return true
		})
	}

	for _, d := range f.Decls {
		switch x := d.(type) {
		case *ast.FuncDecl:
			if x.Body != nil {
				x.Body.List = rw.stmts(x.Body.List)
			}
		case *ast.GenDecl:
			for _, sp := range x.Specs {
				if vs, ok := sp.(*ast.ValueSpec); ok {
					for i, v := range vs.Values {
						vs.Values[i] = rw.expr(v)
					}
				}
			}
		}
	}

	if rw.needRT {
		// drop "sync" import if unused now
		syncUsed := false
		if rw.syncName != "" {
			ast.Inspect(f, func(n ast.Node) bool {
				if se, ok := n.(*ast.SelectorExpr); ok {
					if id, ok := se.X.(*ast.Ident); ok && id.Name == rw.syncName {
						syncUsed = true
					}
				}
				return true
			})
		}
		imp := &ast.ImportSpec{Name: ast.NewIdent(rtName), Path: &ast.BasicLit{Kind: token.STRING, Value: strconv.Quote(module + "/zsimrt")}}
		placed := false
		for _, d := range f.Decls {
			gd, ok := d.(*ast.GenDecl)
			if !ok || gd.Tok != token.IMPORT {
				continue
			}
			if !syncUsed && rw.syncName != "" {
				var specs []ast.Spec
				for _, sp := range gd.Specs {
					is := sp.(*ast.ImportSpec)
					if p, _ := strconv.Unquote(is.Path.Value); p == "sync" {
						continue
					}
					specs = append(specs, sp)
				}
				gd.Specs = specs
			}
			if !placed {
				gd.Specs = append(gd.Specs, imp)
				if gd.Lparen == token.NoPos {
					gd.Lparen = gd.Pos()
					gd.Rparen = gd.End()
				}
				placed = true
			}
		}
		if !placed {
			gd := &ast.GenDecl{Tok: token.IMPORT, Specs: []ast.Spec{imp}}
			f.Decls = append([]ast.Decl{gd}, f.Decls...)
		}
		// remove now-empty import decls
		var decls []ast.Decl
		for _, d := range f.Decls {
			if gd, ok := d.(*ast.GenDecl); ok && gd.Tok == token.IMPORT && len(gd.Specs) == 0 {
				continue
			}
			decls = append(decls, d)
		}
		f.Decls = decls
	}

	var buf bytes.Buffer
	if err := format.Node(&buf, fset, f); err != nil {
		return rw.st, fmt.Errorf("%s: %w", path, err)
	}
	if zeroVars {
		// process-wide state that the dependency initialises lazily (a sync.Once and what it
		// guards): back to the zero value before every run, so that every run - not only
		// the first one of a process - goes through the initialisation and its scheduling points
		for _, d := range f.Decls {
			gd, ok := d.(*ast.GenDecl)
			if !ok || gd.Tok != token.VAR {
				continue
			}
			for _, sp := range gd.Specs {
				vs := sp.(*ast.ValueSpec)
				if vs.Type == nil || len(vs.Values) != 0 {
					continue
				}
				var tb bytes.Buffer
				format.Node(&tb, fset, vs.Type)
				for _, id := range vs.Names {
					if id.Name != "_" {
						reinitByRound[0] = append(reinitByRound[0], fmt.Sprintf("{\n\t\t\tvar z %s\n\t\t\t%s = z\n\t\t}", tb.String(), id.Name))
						rw.st.ClockVars++
					}
				}
			}
		}
	}
	if len(reinitByRound) > 0 {
		base := strings.TrimSuffix(filepath.Base(path), ".go")
		fn := "zverifReinit_" + strings.Map(func(r rune) rune {
			if r >= 'a' && r <= 'z' || r >= 'A' && r <= 'Z' || r >= '0' && r <= '9' {
				return r
			}
			return '_'
		}, base)
		rw.st.reinitFunc = fn
		fmt.Fprintf(&buf, "\nfunc %s(round int) {\n\tswitch round {\n", fn)
		var rounds []int
		for r := range reinitByRound {
			rounds = append(rounds, r)
		}
		sort.Ints(rounds)
		for _, r := range rounds {
			fmt.Fprintf(&buf, "\tcase %d:\n", r)
			for _, a := range reinitByRound[r] {
				fmt.Fprintf(&buf, "\t\t%s\n", a)
			}
		}
		fmt.Fprintf(&buf, "\t}\n}\n")
	}
	// re-parse as a sanity check
	if _, err := parser.ParseFile(token.NewFileSet(), path, buf.Bytes(), 0); err != nil {
		return rw.st, fmt.Errorf("%s: rewritten file does not parse: %w", path, err)
	}
	return rw.st, os.WriteFile(path, buf.Bytes(), 0o644)
}

func (rw *rewriter) point(n ast.Node) *ast.BasicLit {
	p := rw.fset.Position(n.Pos())
	return &ast.BasicLit{Kind: token.STRING, Value: strconv.Quote(fmt.Sprintf("%s:%d", rw.rel, p.Line))}
}

func rtCall(fn string, args ...ast.Expr) *ast.CallExpr {
	return &ast.CallExpr{Fun: &ast.SelectorExpr{X: ast.NewIdent(rtName), Sel: ast.NewIdent(fn)}, Args: args}
}

func (rw *rewriter) yield(n ast.Node) ast.Stmt {
	rw.st.Yields++
	rw.needRT = true
	return &ast.ExprStmt{X: rtCall("Yield", rw.point(n))}
}

// hasSyncOp reports whether the node contains an atomic / channel operation
// outside function literals.
func (rw *rewriter) hasSyncOp(n ast.Node) bool {
	if n == nil {
		return false
	}
	found := false
	ast.Inspect(n, func(x ast.Node) bool {
		if found {
			return false
		}
		switch y := x.(type) {
		case *ast.FuncLit:
			return false
		case *ast.SelectorExpr:
			// only the operand can be a package variable, never the selected name
			if rw.hasSyncOp(y.X) {
				found = true
			}
			return false
		case *ast.KeyValueExpr:
			if _, bare := y.Key.(*ast.Ident); bare {
				if rw.hasSyncOp(y.Value) {
					found = true
				}
				return false
			}
		case *ast.Ident:
			if rw.pkgVars[y.Name] {
				if y.Obj == nil {
					found = true
					rw.viaPkgVar = true
				} else if vs, ok := y.Obj.Decl.(*ast.ValueSpec); ok && rw.pkgSpecs[vs] {
					found = true
					rw.viaPkgVar = true
				}
			}
		case *ast.SendStmt:
			found = true
		case *ast.UnaryExpr:
			if y.Op == token.ARROW {
				found = true
			}
		case *ast.CallExpr:
			switch fn := y.Fun.(type) {
			case *ast.Ident:
				if fn.Name == "close" && len(y.Args) == 1 {
					found = true
				}
			case *ast.SelectorExpr:
				if id, ok := fn.X.(*ast.Ident); ok && rw.atomicName != "" && id.Name == rw.atomicName {
					found = true
				} else if atomicMethods[fn.Sel.Name] {
					if fn.Sel.Name == "Add" || fn.Sel.Name == "And" || fn.Sel.Name == "Or" {
						// too common a name (time.Time.Add, Map.Add): only a
						// one-argument call on a plain variable/field counts
						_, isCall := fn.X.(*ast.CallExpr)
						if len(y.Args) == 1 && !isCall {
							found = true
						}
					} else {
						found = true
					}
				}
			}
		}
		return true
	})
	return found
}

func (rw *rewriter) stmts(list []ast.Stmt) []ast.Stmt {
	var out []ast.Stmt
	for _, s := range list {
		if b := rw.splitRMW(s); b != nil {
			// assembled by hand (the new nodes have no positions of their own): the usual
			// point before the statement, the load, the dense point, the store
			var r []ast.Stmt
			if rw.hasSyncOp(s) {
				r = append(r, rw.yield(s))
			} else {
				rw.st.DenseYields++
				r = append(r, &ast.ExprStmt{X: rtCall("YieldDense", rw.point(s))})
			}
			load, store := b.List[0], b.List[2]
			inner := append([]ast.Stmt{}, rw.mapAccesses(load)...)
			inner = append(inner, load, &ast.ExprStmt{X: rtCall("YieldDense", rw.point(s))})
			inner = append(inner, rw.mapAccesses(store)...)
			inner = append(inner, store)
			out = append(out, append(r, &ast.BlockStmt{List: inner})...)
			continue
		}
		acc := rw.mapAccesses(s)
		r := rw.stmt(s)
		if len(acc) > 0 && len(r) > 0 {
			// R12: right before the statement, with no scheduling point in between
			rr := append([]ast.Stmt{}, r[:len(r)-1]...)
			rr = append(rr, acc...)
			r = append(rr, r[len(r)-1])
		}
		// R9: every other statement gets a "dense" scheduling point, which is a no-op
		// unless the run asks for dense scheduling: then unsynchronised accesses to
		// shared state (a read before the lock is taken, state that is transiently
		// inconsistent inside somebody's critical section) can interleave as well,
		// and the clock moves between any two statements
		if len(r) > 0 && rw.noDense == 0 && rw.denseable(s) && !rw.isYield(r[0]) {
			rw.st.DenseYields++
			rw.needRT = true
			r = append([]ast.Stmt{&ast.ExprStmt{X: rtCall("YieldDense", rw.point(s))}}, r...)
		}
		out = append(out, r...)
	}
	return out
}

// pure: an expression without calls, receives or other effects (identifiers,
// selectors, index expressions, literals, unary/binary operators, derefs).
func pure(e ast.Expr) bool {
	ok := true
	ast.Inspect(e, func(n ast.Node) bool {
		switch x := n.(type) {
		case *ast.CallExpr, *ast.FuncLit, *ast.CompositeLit, *ast.TypeAssertExpr:
			ok = false
		case *ast.UnaryExpr:
			if x.Op == token.ARROW || x.Op == token.AND {
				ok = false
			}
		}
		return ok
	})
	return ok
}

func (rw *rewriter) text(n ast.Node) string {
	var b bytes.Buffer
	format.Node(&b, rw.fset, n)
	return b.String()
}

func (rw *rewriter) clone(e ast.Expr) ast.Expr {
	c, err := parser.ParseExpr(rw.text(e))
	if err != nil {
		return nil
	}
	return c
}

// shared: an lvalue that other goroutines can reach - an index, field or
// pointer target, or a package-level variable (not a plain local).
func (rw *rewriter) shared(e ast.Expr) bool {
	switch x := e.(type) {
	case *ast.IndexExpr, *ast.SelectorExpr, *ast.StarExpr:
		return true
	case *ast.ParenExpr:
		return rw.shared(x.X)
	case *ast.Ident:
		if !rw.pkgVars[x.Name] {
			return false
		}
		if x.Obj == nil {
			return true
		}
		vs, ok := x.Obj.Decl.(*ast.ValueSpec)
		return ok && rw.pkgSpecs[vs]
	}
	return false
}

// R11: a read-modify-write of shared memory (x op= y, x++, x = ... x ...) is
// not atomic on a real machine. It becomes { tmp := <new value>; YieldDense;
// x = tmp }, so that with dense scheduling another goroutine can run between
// the load and the store (lost updates of unsynchronised or differently locked
// updates show). Only for operands without side effects; the types are those of
// the original operands.
func (rw *rewriter) splitRMW(s ast.Stmt) *ast.BlockStmt {
	if rw.noDense > 0 {
		return nil
	}
	var lhs ast.Expr
	var val ast.Expr
	switch x := s.(type) {
	case *ast.IncDecStmt:
		if !rw.shared(x.X) || !pure(x.X) {
			return nil
		}
		op := token.ADD
		if x.Tok == token.DEC {
			op = token.SUB
		}
		lhs = x.X
		val = &ast.BinaryExpr{X: rw.clone(x.X), Op: op, Y: &ast.BasicLit{Kind: token.INT, Value: "1"}}
	case *ast.AssignStmt:
		if len(x.Lhs) != 1 || len(x.Rhs) != 1 || !rw.shared(x.Lhs[0]) || !pure(x.Lhs[0]) || !pure(x.Rhs[0]) {
			return nil
		}
		lhs = x.Lhs[0]
		switch x.Tok {
		case token.ASSIGN:
			// only self-referential updates: the right side mentions the left side
			if !strings.Contains(rw.text(x.Rhs[0]), rw.text(lhs)) {
				return nil
			}
			val = rw.clone(x.Rhs[0])
		case token.DEFINE:
			return nil
		default:
			ops := map[token.Token]token.Token{token.ADD_ASSIGN: token.ADD, token.SUB_ASSIGN: token.SUB, token.MUL_ASSIGN: token.MUL, token.QUO_ASSIGN: token.QUO,
				token.REM_ASSIGN: token.REM, token.AND_ASSIGN: token.AND, token.OR_ASSIGN: token.OR, token.XOR_ASSIGN: token.XOR, token.SHL_ASSIGN: token.SHL,
				token.SHR_ASSIGN: token.SHR, token.AND_NOT_ASSIGN: token.AND_NOT}
			op, ok := ops[x.Tok]
			if !ok {
				return nil
			}
			val = &ast.BinaryExpr{X: rw.clone(lhs), Op: op, Y: &ast.ParenExpr{X: rw.clone(x.Rhs[0])}}
		}
	default:
		return nil
	}
	if val == nil {
		return nil
	}
	for _, e := range []ast.Expr{val} {
		if e == nil {
			return nil
		}
	}
	rw.tmpN++
	tmp := ast.NewIdent(fmt.Sprintf("zsimTmp%d", rw.tmpN))
	rw.st.SplitRMW++
	rw.needRT = true
	return &ast.BlockStmt{List: []ast.Stmt{
		&ast.AssignStmt{Lhs: []ast.Expr{tmp}, Tok: token.DEFINE, Rhs: []ast.Expr{val}},
		&ast.ExprStmt{X: rtCall("YieldDense", rw.point(s))},
		&ast.AssignStmt{Lhs: []ast.Expr{rw.clone(lhs)}, Tok: token.ASSIGN, Rhs: []ast.Expr{ast.NewIdent(tmp.Name)}},
	}}
}

// R12: accesses to maps held in struct fields are reported to the runtime, which
// keeps, per map object, the set of locks that were held at every access by more
// than one goroutine (lockset discipline). Go aborts the process when a map is
// read and written at once, so a map that several goroutines use without a
// common lock breaks any property about concurrent use - whether or not the
// interleavings of a simulated run happen to show a wrong result.
func (rw *rewriter) mapAccesses(s ast.Stmt) []ast.Stmt {
	if len(mapFields) == 0 && len(unsafeObjs) == 0 {
		return nil
	}
	var heads []ast.Node
	switch x := s.(type) {
	case *ast.AssignStmt, *ast.ExprStmt, *ast.IncDecStmt, *ast.ReturnStmt, *ast.SendStmt, *ast.DeferStmt, *ast.GoStmt:
		heads = append(heads, x)
	case *ast.IfStmt:
		if x.Init != nil {
			heads = append(heads, x.Init)
		}
		heads = append(heads, x.Cond)
	case *ast.ForStmt:
		if x.Init != nil {
			heads = append(heads, x.Init)
		}
		if x.Cond != nil {
			heads = append(heads, x.Cond)
		}
	case *ast.RangeStmt:
		heads = append(heads, x.X)
	case *ast.SwitchStmt:
		if x.Init != nil {
			heads = append(heads, x.Init)
		}
		if x.Tag != nil {
			heads = append(heads, x.Tag)
		}
	default:
		return nil
	}
	isMap := func(e ast.Expr) bool {
		se, ok := e.(*ast.SelectorExpr)
		return ok && mapFields[se.Sel.Name] && pure(se.X)
	}
	type acc struct {
		e     ast.Expr
		write bool
	}
	found := map[string]*acc{}
	var order []string
	note := func(e ast.Expr, write bool) {
		k := rw.text(e)
		if a, ok := found[k]; ok {
			a.write = a.write || write
			return
		}
		found[k] = &acc{e, write}
		order = append(order, k)
	}
	objs := map[string]ast.Expr{}
	var objOrder []string
	noteObj := func(e ast.Expr) {
		k := rw.text(e)
		if _, ok := objs[k]; !ok {
			objs[k] = e
			objOrder = append(objOrder, k)
		}
	}
	var walk func(n ast.Node)
	walk = func(n ast.Node) {
		ast.Inspect(n, func(m ast.Node) bool {
			switch x := m.(type) {
			case *ast.FuncLit:
				return false
			case *ast.AssignStmt:
				for _, l := range x.Lhs {
					// the variable / field itself is given a (new) object: not a use of an object
					if se, ok := l.(*ast.SelectorExpr); ok && unsafeObjs[se.Sel.Name] {
						continue
					}
					if id, ok := l.(*ast.Ident); ok && unsafeObjs[id.Name] {
						continue
					}
					if ix, ok := l.(*ast.IndexExpr); ok && isMap(ix.X) {
						note(ix.X, true)
						walk(ix.Index)
						continue
					}
					if isMap(l) {
						continue // the field itself gets a new map: not an access to a map
					}
					walk(l)
				}
				for _, r := range x.Rhs {
					walk(r)
				}
				return false
			case *ast.IncDecStmt:
				if ix, ok := x.X.(*ast.IndexExpr); ok && isMap(ix.X) {
					note(ix.X, true)
					walk(ix.Index)
					return false
				}
			case *ast.CallExpr:
				if id, ok := x.Fun.(*ast.Ident); ok && id.Name == "delete" && len(x.Args) == 2 && isMap(x.Args[0]) {
					note(x.Args[0], true)
					walk(x.Args[1])
					return false
				}
			case *ast.SelectorExpr:
				if isMap(x) {
					note(x, false)
					return false
				}
				if unsafeObjs[x.Sel.Name] && pure(x.X) {
					noteObj(x)
					return false
				}
			case *ast.Ident:
				if unsafeObjs[x.Name] && rw.pkgVars[x.Name] {
					if x.Obj == nil {
						noteObj(x)
					} else if vs, ok := x.Obj.Decl.(*ast.ValueSpec); ok && rw.pkgSpecs[vs] {
						noteObj(x)
					}
				}
			}
			return true
		})
	}
	for _, h := range heads {
		walk(h)
	}
	var out []ast.Stmt
	for _, k := range order {
		a := found[k]
		c := rw.clone(a.e)
		if c == nil {
			continue
		}
		w := "false"
		if a.write {
			w = "true"
		}
		rw.st.MapAccesses++
		rw.needRT = true
		out = append(out, &ast.ExprStmt{X: rtCall("MapAccess", rw.point(s), c, ast.NewIdent(w))})
	}
	for _, k := range objOrder {
		c := rw.clone(objs[k])
		if c == nil {
			continue
		}
		rw.st.MapAccesses++
		rw.needRT = true
		out = append(out, &ast.ExprStmt{X: rtCall("ObjAccess", rw.point(s), c)})
	}
	return out
}

func (rw *rewriter) denseable(s ast.Stmt) bool {
	switch s.(type) {
	case *ast.AssignStmt, *ast.ExprStmt, *ast.IncDecStmt, *ast.ReturnStmt, *ast.IfStmt, *ast.ForStmt, *ast.RangeStmt,
		*ast.SwitchStmt, *ast.TypeSwitchStmt, *ast.DeferStmt, *ast.GoStmt, *ast.SendStmt, *ast.SelectStmt:
		return true
	}
	return false
}

func (rw *rewriter) isYield(s ast.Stmt) bool {
	es, ok := s.(*ast.ExprStmt)
	if !ok {
		return false
	}
	c, ok := es.X.(*ast.CallExpr)
	if !ok {
		return false
	}
	se, ok := c.Fun.(*ast.SelectorExpr)
	if !ok {
		return false
	}
	id, ok := se.X.(*ast.Ident)
	return ok && id.Name == rtName && (se.Sel.Name == "Yield" || se.Sel.Name == "YieldDense")
}

func (rw *rewriter) block(b *ast.BlockStmt) {
	if b != nil {
		b.List = rw.stmts(b.List)
	}
}

func isRecv(e ast.Expr) (*ast.UnaryExpr, bool) {
	for {
		p, ok := e.(*ast.ParenExpr)
		if !ok {
			break
		}
		e = p.X
	}
	u, ok := e.(*ast.UnaryExpr)
	if ok && u.Op == token.ARROW {
		return u, true
	}
	return nil, false
}

func (rw *rewriter) stmt(s ast.Stmt) []ast.Stmt {
	switch x := s.(type) {
	case nil:
		return nil
	case *ast.BlockStmt:
		rw.block(x)
		return []ast.Stmt{x}
	case *ast.LabeledStmt:
		r := rw.stmt(x.Stmt)
		if len(r) == 0 {
			return []ast.Stmt{x}
		}
		x.Stmt = r[len(r)-1]
		return append(r[:len(r)-1:len(r)-1], x)
	case *ast.IfStmt:
		pre := rw.hasSyncOp(x.Init) || rw.hasSyncOp(x.Cond)
		rw.ifStmt(x)
		if pre {
			return []ast.Stmt{rw.yield(x), x}
		}
		return []ast.Stmt{x}
	case *ast.ForStmt:
		pre := rw.hasSyncOp(x.Init) || rw.hasSyncOp(x.Cond) || rw.hasSyncOp(x.Post)
		if x.Init != nil {
			x.Init = rw.simple(x.Init)
		}
		if x.Cond != nil {
			x.Cond = rw.expr(x.Cond)
		}
		if x.Post != nil {
			x.Post = rw.simple(x.Post)
		}
		rw.block(x.Body)
		if pre {
			x.Body.List = append([]ast.Stmt{rw.yield(x)}, x.Body.List...)
			return []ast.Stmt{rw.yield(x), x}
		}
		return []ast.Stmt{x}
	case *ast.RangeStmt:
		pre := rw.hasSyncOp(x.X)
		x.X = rw.expr(x.X)
		// no dense scheduling points inside range bodies: the operand may be a map (the
		// rewriter is purely syntactic), and the order in which a map is walked is
		// random - the sequence of points passed would differ from run to run
		rw.noDense++
		rw.block(x.Body)
		rw.noDense--
		if pre {
			return []ast.Stmt{rw.yield(x), x}
		}
		return []ast.Stmt{x}
	case *ast.SwitchStmt:
		pre := rw.hasSyncOp(x.Init) || rw.hasSyncOp(x.Tag)
		if x.Init != nil {
			x.Init = rw.simple(x.Init)
		}
		if x.Tag != nil {
			x.Tag = rw.expr(x.Tag)
		}
		for _, c := range x.Body.List {
			cc := c.(*ast.CaseClause)
			if !pre {
				for _, e := range cc.List {
					if rw.hasSyncOp(e) {
						pre = true
					}
				}
			}
			for i, e := range cc.List {
				cc.List[i] = rw.expr(e)
			}
			cc.Body = rw.stmts(cc.Body)
		}
		if pre {
			return []ast.Stmt{rw.yield(x), x}
		}
		return []ast.Stmt{x}
	case *ast.TypeSwitchStmt:
		pre := rw.hasSyncOp(x.Init) || rw.hasSyncOp(x.Assign)
		for _, c := range x.Body.List {
			cc := c.(*ast.CaseClause)
			cc.Body = rw.stmts(cc.Body)
		}
		if pre {
			return []ast.Stmt{rw.yield(x), x}
		}
		return []ast.Stmt{x}
	case *ast.SelectStmt:
		return rw.selectStmt(x)
	case *ast.GoStmt:
		return rw.goStmt(x)
	case *ast.DeferStmt:
		pre := rw.hasSyncOp(x.Call)
		x.Call = rw.expr(x.Call).(*ast.CallExpr)
		if pre {
			return []ast.Stmt{rw.yield(x), x}
		}
		return []ast.Stmt{x}
	case *ast.ExprStmt:
		if u, ok := isRecv(x.X); ok {
			// R6: stand-alone blocking receive
			rw.st.Recvs++
			rw.needRT = true
			x.X = rtCall("Recv", rw.point(x), rw.expr(u.X))
			return []ast.Stmt{x}
		}
		pre := rw.hasSyncOp(x)
		x.X = rw.expr(x.X)
		if pre {
			return []ast.Stmt{rw.yield(x), x}
		}
		return []ast.Stmt{x}
	case *ast.AssignStmt:
		if len(x.Rhs) == 1 && len(x.Lhs) == 2 {
			if u, ok := isRecv(x.Rhs[0]); ok {
				rw.st.Recvs++
				rw.needRT = true
				x.Rhs[0] = rtCall("Recv2", rw.point(x), rw.expr(u.X))
				return []ast.Stmt{x}
			}
		}
		pre := rw.hasSyncOp(x)
		onlyRecv := false
		if len(x.Rhs) == 1 {
			if _, ok := isRecv(x.Rhs[0]); ok {
				onlyRecv = true
			}
		}
		for i, e := range x.Lhs {
			x.Lhs[i] = rw.expr(e)
		}
		for i, e := range x.Rhs {
			x.Rhs[i] = rw.expr(e)
		}
		if pre && !onlyRecv {
			return []ast.Stmt{rw.yield(x), x}
		}
		return []ast.Stmt{x}
	case *ast.SendStmt:
		x.Chan = rw.expr(x.Chan)
		x.Value = rw.expr(x.Value)
		return []ast.Stmt{rw.yield(x), x}
	case *ast.IncDecStmt:
		pre := rw.hasSyncOp(x)
		x.X = rw.expr(x.X)
		if pre {
			return []ast.Stmt{rw.yield(x), x}
		}
		return []ast.Stmt{x}
	case *ast.ReturnStmt:
		pre := rw.hasSyncOp(x)
		for i, e := range x.Results {
			x.Results[i] = rw.expr(e)
		}
		if pre {
			return []ast.Stmt{rw.yield(x), x}
		}
		return []ast.Stmt{x}
	case *ast.DeclStmt:
		pre := rw.hasSyncOp(x)
		if gd, ok := x.Decl.(*ast.GenDecl); ok {
			for _, sp := range gd.Specs {
				if vs, ok := sp.(*ast.ValueSpec); ok {
					for i, v := range vs.Values {
						vs.Values[i] = rw.expr(v)
					}
				}
			}
		}
		if pre {
			return []ast.Stmt{rw.yield(x), x}
		}
		return []ast.Stmt{x}
	default:
		return []ast.Stmt{s}
	}
}

// simple rewrites a simple statement in a header position (no pre-yield can
// be inserted there; the caller inserts it before the compound statement).
func (rw *rewriter) simple(s ast.Stmt) ast.Stmt {
	switch x := s.(type) {
	case *ast.ExprStmt:
		x.X = rw.expr(x.X)
	case *ast.AssignStmt:
		for i, e := range x.Rhs {
			x.Rhs[i] = rw.expr(e)
		}
	case *ast.IncDecStmt:
		x.X = rw.expr(x.X)
	}
	return s
}

func (rw *rewriter) ifStmt(x *ast.IfStmt) {
	if x.Init != nil {
		x.Init = rw.simple(x.Init)
	}
	x.Cond = rw.expr(x.Cond)
	rw.block(x.Body)
	switch e := x.Else.(type) {
	case *ast.BlockStmt:
		rw.block(e)
	case *ast.IfStmt:
		if rw.hasSyncOp(e.Init) || rw.hasSyncOp(e.Cond) {
			rw.ifStmt(e)
			x.Else = &ast.BlockStmt{List: []ast.Stmt{rw.yield(e), e}}
		} else {
			rw.ifStmt(e)
		}
	}
}

func (rw *rewriter) goStmt(x *ast.GoStmt) []ast.Stmt {
	rw.st.GoStmts++
	rw.needRT = true
	call := x.Call
	pt := rw.point(x)
	// go func(){...}() with no arguments
	if fl, ok := call.Fun.(*ast.FuncLit); ok && len(call.Args) == 0 {
		rw.block(fl.Body)
		return []ast.Stmt{&ast.ExprStmt{X: rtCall("Go", pt, fl)}}
	}
	// general: evaluate function value and arguments now
	var lhs, rhs []ast.Expr
	rw.tmp++
	fn := ast.NewIdent(fmt.Sprintf("_zgf%d", rw.tmp))
	lhs = append(lhs, fn)
	rhs = append(rhs, rw.expr(call.Fun))
	var args []ast.Expr
	for i, a := range call.Args {
		id := ast.NewIdent(fmt.Sprintf("_zga%d_%d", rw.tmp, i))
		lhs = append(lhs, id)
		rhs = append(rhs, rw.expr(a))
		args = append(args, id)
	}
	inner := &ast.CallExpr{Fun: fn, Args: args, Ellipsis: call.Ellipsis}
	if call.Ellipsis != token.NoPos {
		inner.Ellipsis = 1
	}
	assign := &ast.AssignStmt{Lhs: lhs, Tok: token.DEFINE, Rhs: rhs}
	lit := &ast.FuncLit{Type: &ast.FuncType{Params: &ast.FieldList{}}, Body: &ast.BlockStmt{List: []ast.Stmt{&ast.ExprStmt{X: inner}}}}
	return []ast.Stmt{&ast.BlockStmt{List: []ast.Stmt{assign, &ast.ExprStmt{X: rtCall("Go", pt, lit)}}}}
}

func (rw *rewriter) selectStmt(x *ast.SelectStmt) []ast.Stmt {
	rw.needRT = true
	pt := rw.point(x)
	type clause struct {
		cc      *ast.CommClause
		recv    ast.Expr // channel expr
		send    *ast.SendStmt
		lhs     []ast.Expr
		tok     token.Token
		deflt   bool
		bindTmp *ast.Ident
	}
	var cls []clause
	ok := true
	needV := false
	for _, c := range x.Body.List {
		cc := c.(*ast.CommClause)
		cl := clause{cc: cc}
		switch comm := cc.Comm.(type) {
		case nil:
			cl.deflt = true
		case *ast.SendStmt:
			cl.send = comm
		case *ast.ExprStmt:
			if u, isr := isRecv(comm.X); isr {
				cl.recv = u.X
			} else {
				ok = false
			}
		case *ast.AssignStmt:
			if len(comm.Rhs) == 1 {
				if u, isr := isRecv(comm.Rhs[0]); isr {
					cl.recv = u.X
					cl.lhs = comm.Lhs
					cl.tok = comm.Tok
					needV = true
				} else {
					ok = false
				}
			} else {
				ok = false
			}
		default:
			ok = false
		}
		cls = append(cls, cl)
	}
	if !ok {
		// leave alone: yield before and at top of each clause
		rw.st.Uncontrolled++
		for _, c := range x.Body.List {
			cc := c.(*ast.CommClause)
			cc.Body = append([]ast.Stmt{rw.yield(cc)}, rw.stmts(cc.Body)...)
		}
		return []ast.Stmt{rw.yield(x), x}
	}
	rw.st.Selects++
	rw.tmp++
	id := rw.tmp
	var pre []ast.Stmt
	args := []ast.Expr{pt, nil}
	hasDefault := false
	var cases []ast.Stmt
	n := 0
	for i := range cls {
		cl := &cls[i]
		body := rw.stmts(cl.cc.Body)
		if cl.deflt {
			hasDefault = true
			cases = append(cases, &ast.CaseClause{List: []ast.Expr{&ast.UnaryExpr{Op: token.SUB, X: &ast.BasicLit{Kind: token.INT, Value: "1"}}}, Body: body})
			continue
		}
		idx := &ast.BasicLit{Kind: token.INT, Value: strconv.Itoa(n)}
		n++
		if cl.send != nil {
			args = append(args, rtCall("SendCase", rw.expr(cl.send.Chan), rw.expr(cl.send.Value)))
			cases = append(cases, &ast.CaseClause{List: []ast.Expr{idx}, Body: body})
			continue
		}
		chExpr := rw.expr(cl.recv)
		if cl.lhs != nil {
			tmp := ast.NewIdent(fmt.Sprintf("_zsc%d_%d", id, i))
			pre = append(pre, &ast.AssignStmt{Lhs: []ast.Expr{tmp}, Tok: token.DEFINE, Rhs: []ast.Expr{chExpr}})
			chExpr = tmp
			var rhs []ast.Expr
			rhs = append(rhs, rtCall("As", tmp, ast.NewIdent(fmt.Sprintf("_zsv%d", id))))
			if len(cl.lhs) == 2 {
				rhs = append(rhs, ast.NewIdent(fmt.Sprintf("_zso%d", id)))
			}
			bind := &ast.AssignStmt{Lhs: cl.lhs, Tok: cl.tok, Rhs: rhs}
			allBlank := true
			for _, l := range cl.lhs {
				if idn, isId := l.(*ast.Ident); !isId || idn.Name != "_" {
					allBlank = false
				}
			}
			if allBlank {
				bind.Tok = token.ASSIGN
			}
			body = append([]ast.Stmt{bind}, body...)
		}
		args = append(args, rtCall("RecvCase", chExpr))
		cases = append(cases, &ast.CaseClause{List: []ast.Expr{idx}, Body: body})
	}
	if hasDefault {
		args[1] = ast.NewIdent("true")
	} else {
		args[1] = ast.NewIdent("false")
	}
	cases = append(cases, &ast.CaseClause{List: nil, Body: []ast.Stmt{&ast.ExprStmt{X: &ast.CallExpr{Fun: ast.NewIdent("panic"), Args: []ast.Expr{&ast.BasicLit{Kind: token.STRING, Value: `"zsimrt: unreachable select clause"`}}}}}})
	sw := &ast.SwitchStmt{Body: &ast.BlockStmt{List: cases}}
	if needV {
		iv := ast.NewIdent(fmt.Sprintf("_zsi%d", id))
		vv := ast.NewIdent(fmt.Sprintf("_zsv%d", id))
		ov := ast.NewIdent(fmt.Sprintf("_zso%d", id))
		sw.Init = &ast.AssignStmt{Lhs: []ast.Expr{iv, vv, ov}, Tok: token.DEFINE, Rhs: []ast.Expr{rtCall("SelectV", args...)}}
		sw.Tag = iv
		// silence "declared and not used"
		use := &ast.AssignStmt{Lhs: []ast.Expr{ast.NewIdent("_"), ast.NewIdent("_")}, Tok: token.ASSIGN, Rhs: []ast.Expr{vv, ov}}
		for _, c := range cases {
			cc := c.(*ast.CaseClause)
			cc.Body = append([]ast.Stmt{use}, cc.Body...)
		}
		return []ast.Stmt{&ast.BlockStmt{List: append(pre, sw)}}
	}
	sw.Tag = rtCall("Select", args...)
	return []ast.Stmt{sw}
}

// expr rewrites inside an expression: function literal bodies, and receive
// expressions (-> zsimrt.Recv).
func (rw *rewriter) expr(e ast.Expr) ast.Expr {
	switch x := e.(type) {
	case nil:
		return nil
	case *ast.FuncLit:
		rw.block(x.Body)
		return x
	case *ast.UnaryExpr:
		if x.Op == token.ARROW {
			rw.st.Recvs++
			rw.needRT = true
			return rtCall("Recv", rw.point(x), rw.expr(x.X))
		}
		x.X = rw.expr(x.X)
		return x
	case *ast.BinaryExpr:
		x.X = rw.expr(x.X)
		x.Y = rw.expr(x.Y)
		return x
	case *ast.CallExpr:
		x.Fun = rw.expr(x.Fun)
		for i, a := range x.Args {
			x.Args[i] = rw.expr(a)
		}
		return x
	case *ast.ParenExpr:
		x.X = rw.expr(x.X)
		return x
	case *ast.SelectorExpr:
		x.X = rw.expr(x.X)
		return x
	case *ast.IndexExpr:
		x.X = rw.expr(x.X)
		x.Index = rw.expr(x.Index)
		return x
	case *ast.SliceExpr:
		x.X = rw.expr(x.X)
		x.Low = rw.expr(x.Low)
		x.High = rw.expr(x.High)
		x.Max = rw.expr(x.Max)
		return x
	case *ast.StarExpr:
		x.X = rw.expr(x.X)
		return x
	case *ast.TypeAssertExpr:
		x.X = rw.expr(x.X)
		return x
	case *ast.KeyValueExpr:
		x.Value = rw.expr(x.Value)
		return x
	case *ast.CompositeLit:
		for i, el := range x.Elts {
			x.Elts[i] = rw.expr(el)
		}
		return x
	default:
		return e
	}
}
