module verif/instrument

go 1.23
