//go:build amd64

package zsimrt

// gptr returns the address of the current goroutine's descriptor. The runtime
// reuses descriptors only after a goroutine has exited, and a controlled
// goroutine is taken out of the table when it exits, so the address identifies
// a live controlled goroutine (asking the runtime for a stack trace to parse the
// goroutine id out of it costs tens of microseconds per scheduling point).
func gptr() uintptr

func goid() int64 { return int64(gptr()) }
