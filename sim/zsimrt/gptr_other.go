//go:build !amd64

package zsimrt

import (
	"runtime"
	"strconv"
)

func goid() int64 {
	var buf [64]byte
	n := runtime.Stack(buf[:], false)
	// "goroutine 123 ["
	s := buf[10:n]
	i := 0
	for i < len(s) && s[i] >= '0' && s[i] <= '9' {
		i++
	}
	id, _ := strconv.ParseInt(string(s[:i]), 10, 64)
	return id
}
