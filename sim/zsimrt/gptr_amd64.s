#include "textflag.h"

// func gptr() uintptr: the address of the running goroutine's g (its identity while it lives)
TEXT ·gptr(SB),NOSPLIT,$0-8
	MOVQ (TLS), AX
	MOVQ AX, ret+0(FP)
	RET
