// Package zsimrt is the cooperative runtime of the deterministic simulator.
//
// It is copied into a scratch copy of the repository (never into /repo) and is
// called from code that the rewriter (sim/instrument) produced: every
// synchronisation point of the instrumented packages parks the calling
// goroutine here until the scheduler (sim/harness) releases it. Outside a
// simulation (no run active) every entry point degrades to the plain
// operation, so the instrumented packages still work as ordinary Go code.
package zsimrt

import (
	mrand "math/rand"
	"reflect"
	"runtime"
	"runtime/debug"
	"sort"
	"strconv"
	"sync"
	"sync/atomic"
	"time"
)

// Token is what the scheduler hands to a goroutine when it releases it.
type Token struct {
	Abort bool
	Sel   uint32 // rotation for Select polling order
	// Stall: the goroutine does not get a processor for that long (simulated time) although
	// it could run - preemption, GC, CPU starvation, a suspended VM - and then waits to be
	// scheduled again
	Stall time.Duration
}

type gstate int

const (
	gRunning gstate = iota
	gParked         // at a yield, waiting for a token
	gBlocked        // inside Select/Recv/Sleep, blocked on real channels
	gDone
)

// G is one controlled goroutine.
type G struct {
	Name   string
	goid   int64
	wake   chan Token
	state  gstate
	Point  string // where it is parked / blocked
	need   *Mutex // parked in Lock: runnable only when free
	needRW *RWMutex
	rwW    bool
	spawn  int
	Passed int // times passed over while runnable (fairness)
	tok    Token
	abort  bool
	// ParkedAt is the simulated time the goroutine became parked (for C13's
	// measured scheduler-induced lateness).
	ParkedAt time.Time
	Steps    int
	// StalledNs: simulated time spent in scheduler-imposed stalls
	StalledNs time.Duration
	tdHeld    bool
	// unchecked > 0: the goroutine is inside a monitor's read of library state
	// (Unchecked): no scheduling points, no lockset bookkeeping
	unchecked int
	// locks held (R12, lockset discipline for maps)
	heldW map[any]struct{}
	heldR map[any]int
}

func (g *G) addW(m any) {
	if g.heldW == nil {
		g.heldW = map[any]struct{}{}
	}
	g.heldW[m] = struct{}{}
}

func (g *G) addR(m any) {
	if g.heldR == nil {
		g.heldR = map[any]int{}
	}
	g.heldR[m]++
}

func (g *G) delR(m any) {
	if g.heldR[m] > 1 {
		g.heldR[m]--
	} else {
		delete(g.heldR, m)
	}
}

// Run is the state of one simulation run.
type Run struct {
	mu       sync.Mutex
	gs       map[int64]*G
	byName   map[string]*G
	Arrival  chan struct{}
	AbortCh  chan struct{}
	Seed     uint64 // run seed (math/rand replacement, R15)
	rnd      *mrand.Rand
	rndMu    sync.Mutex
	tdSem    chan struct{} // teardown: one goroutine at a time runs its deferred functions
	stalled  int
	aborting bool
	live     int
	// statistics
	Yields        int64
	UncontrolledY int64
	Spawns        int64
	MaxParked     time.Duration
	// Trace hook: called (by the goroutine itself, serialised by the
	// scheduler discipline) when a goroutine parks. May be nil.
	OnPark func(g *G)
	// OnPanic receives panics of controlled goroutines (nil: re-panic).
	OnPanic func(name string, v any, stack []byte)
	// OnRace receives the first violation of the lockset discipline per map object.
	epoch  uint64
	OnRace func(msg string)
	maps   map[uintptr]*mapState
	// MapChecks counts map accesses seen (evidence).
	MapChecks int64
	// StopsAfterFire counts Timer.Stop calls that came after the timer had fired (evidence).
	StopsAfterFire int64
}

// mapState is the Eraser state of one map object: exclusive to the first
// goroutine that touched it (initialisation), then shared; once shared, the
// candidate set is the intersection of the locks held at every access (for a
// write: held exclusively); an empty set after a write in the shared phase is
// a map that two goroutines can read and write at once.
type mapState struct {
	first    *G
	shared   bool
	modified bool
	cand     map[any]struct{}
	lastPt   string
	lastG    string
	lastW    bool
	reported bool
}

// ObjAccess is called right before a statement that uses an object which is
// documented as unsafe for concurrent use (rewriter rule R14); every use counts
// as a write.
func ObjAccess(point string, obj any) {
	v := reflect.ValueOf(obj)
	switch v.Kind() {
	case reflect.Ptr, reflect.UnsafePointer:
		if v.IsNil() {
			return
		}
		access(point, v.Pointer(), true, "an object that is not safe for concurrent use ("+v.Type().String()+")")
	}
}

// MapAccess is called right before a statement that reads or writes a map held in a struct field.
func MapAccess(point string, m any, write bool) {
	v := reflect.ValueOf(m)
	if v.Kind() != reflect.Map || v.IsNil() {
		return
	}
	access(point, v.Pointer(), write, "a map held in a struct field")
}

func access(point string, ptr uintptr, write bool, what string) {
	r := current()
	if r == nil {
		return
	}
	g := r.self()
	if g == nil || g.abort || g.unchecked > 0 {
		return
	}
	r.mu.Lock()
	defer r.mu.Unlock()
	r.MapChecks++
	if r.maps == nil {
		r.maps = map[uintptr]*mapState{}
	}
	st := r.maps[ptr]
	if st == nil {
		st = &mapState{first: g}
		r.maps[ptr] = st
	}
	cur := map[any]struct{}{}
	for k := range g.heldW {
		cur[k] = struct{}{}
	}
	if !write {
		for k := range g.heldR {
			cur[k] = struct{}{}
		}
	}
	prevPt, prevG, prevW := st.lastPt, st.lastG, st.lastW
	if !st.shared {
		if g == st.first {
			st.lastPt, st.lastG, st.lastW = point, g.Name, write
			return
		}
		st.shared = true
		st.cand = cur
	} else {
		for k := range st.cand {
			if _, ok := cur[k]; !ok {
				delete(st.cand, k)
			}
		}
	}
	if write {
		st.modified = true
	}
	if g.Name != st.lastG || write || !st.lastW {
		st.lastPt, st.lastG, st.lastW = point, g.Name, write
	}
	if st.modified && len(st.cand) == 0 && !st.reported {
		st.reported = true
		if r.OnRace != nil {
			kind := map[bool]string{true: "writes", false: "reads"}
			kind[true] = map[bool]string{true: "writes", false: "uses"}[what == "a map held in a struct field"]
			msg := what + " is used by several goroutines without a common lock: " + g.Name + " " + kind[write] + " it at " + point +
				" holding " + strconv.Itoa(len(cur)) + " lock(s) that cover it; an earlier access was by " + prevG + " (" + kind[prevW] + ", " + prevPt +
				")"
			if what == "a map held in a struct field" {
				msg += "; Go aborts the process when a map is read and written at once"
			} else {
				msg += "; concurrent use corrupts its state (repeated or torn output)"
			}
			f := r.OnRace
			r.mu.Unlock()
			f(msg)
			r.mu.Lock()
		}
	}
}

var (
	curMu sync.RWMutex
	cur   *Run
)

// Begin starts a run. Must be called inside the bubble by the scheduler.
var epochCtr atomic.Uint64

func Begin() *Run {
	r := &Run{
		epoch:   epochCtr.Add(1),
		gs:      map[int64]*G{},
		byName:  map[string]*G{},
		Arrival: make(chan struct{}, 1),
		AbortCh: make(chan struct{}),
		tdSem:   make(chan struct{}, 1),
	}
	curMu.Lock()
	cur = r
	curMu.Unlock()
	return r
}

// End detaches the run.
func End() {
	curMu.Lock()
	cur = nil
	curMu.Unlock()
}

func current() *Run {
	curMu.RLock()
	r := cur
	curMu.RUnlock()
	return r
}

// Active reports whether a simulation run is active.
func Active() bool { return current() != nil }

func (r *Run) self() *G {
	id := goid()
	r.mu.Lock()
	g := r.gs[id]
	r.mu.Unlock()
	return g
}

// Spawn starts a named controlled goroutine (used by the harness for tasks and
// by Go for rewritten go statements). The goroutine parks at "start" first.
func (r *Run) Spawn(name string, f func()) *G {
	g := &G{Name: name, wake: make(chan Token)}
	r.mu.Lock()
	if _, dup := r.byName[name]; dup {
		r.mu.Unlock()
		panic("zsimrt: duplicate goroutine name " + name)
	}
	r.byName[name] = g
	r.live++
	r.Spawns++
	r.mu.Unlock()
	go func() {
		g.goid = goid()
		r.mu.Lock()
		r.gs[g.goid] = g
		r.mu.Unlock()
		defer func() {
			if r.OnPanic != nil {
				if v := recover(); v != nil {
					r.OnPanic(g.Name, v, debug.Stack())
				}
			}
			r.mu.Lock()
			g.state = gDone
			delete(r.gs, g.goid)
			// (a run with tens of thousands of short-lived goroutines must not pay for the
			// finished ones at every scheduling step)
			if r.byName[g.Name] == g {
				delete(r.byName, g.Name)
			}
			r.live--
			r.mu.Unlock()
			if g.tdHeld {
				g.tdHeld = false
				<-r.tdSem
			}
			r.notify()
		}()
		r.park(g, "start", nil)
		f()
	}()
	return g
}

func (r *Run) notify() {
	select {
	case r.Arrival <- struct{}{}:
	default:
	}
}

// park blocks g until the scheduler releases it.
func (r *Run) park(g *G, point string, need *Mutex) {
	if g.abort {
		return
	}
	r.mu.Lock()
	g.state = gParked
	g.Point = point
	g.need = need
	g.ParkedAt = time.Now()
	r.Yields++
	r.mu.Unlock()
	if r.OnPark != nil {
		r.OnPark(g)
	}
	r.notify()
	tok := <-g.wake
	r.mu.Lock()
	g.state = gRunning
	g.need = nil
	g.needRW = nil
	g.tok = tok
	g.Steps++
	if d := time.Since(g.ParkedAt); d > r.MaxParked {
		r.MaxParked = d
	}
	r.mu.Unlock()
	if tok.Abort {
		r.abortExit(g)
	}
	if tok.Stall > 0 {
		t := time.NewTimer(tok.Stall)
		r.mu.Lock()
		g.state = gBlocked
		g.Point = point + ":stalled"
		r.stalled++
		r.mu.Unlock()
		select {
		case <-t.C:
		case <-r.AbortCh:
			r.abortExit(g)
		}
		r.mu.Lock()
		r.stalled--
		g.state = gRunning
		g.StalledNs += tok.Stall
		if tok.Stall > r.MaxParked {
			r.MaxParked = tok.Stall
		}
		r.mu.Unlock()
		r.park(g, point, need)
	}
}

// Yield is a scheduling point.
// Unchecked runs f as a monitor: library methods called inside it are plain
// calls - no scheduling points, no lock-discipline bookkeeping.
func Unchecked(f func()) {
	r := current()
	if r == nil {
		f()
		return
	}
	g := r.self()
	if g == nil {
		f()
		return
	}
	g.unchecked++
	defer func() { g.unchecked-- }()
	f()
}

func Yield(point string) {
	r := current()
	if r == nil {
		return
	}
	g := r.self()
	if g != nil && g.unchecked > 0 {
		return
	}
	if g == nil {
		r.mu.Lock()
		r.UncontrolledY++
		r.mu.Unlock()
		return
	}
	r.park(g, point, nil)
}

// Pool replaces sync.Pool (whose hit-or-miss behaviour depends on the P a
// goroutine runs on and on the garbage collector): a plain LIFO free list, so
// that whether New runs - and with it every scheduling point inside New - is a
// function of the execution alone.
type Pool struct {
	mu   sync.Mutex
	free []any
	ep   uint64
	New  func() any
}

// fresh empties a pool that still holds objects of an earlier run (a pool in a
// package-level variable outlives a run; what it holds must not depend on what
// the process ran before).
func (p *Pool) fresh() {
	if r := current(); r != nil && p.ep != r.epoch {
		p.free, p.ep = nil, r.epoch
	}
}

func (p *Pool) Get() any {
	p.mu.Lock()
	p.fresh()
	if n := len(p.free); n > 0 {
		x := p.free[n-1]
		p.free = p.free[:n-1]
		p.mu.Unlock()
		return x
	}
	p.mu.Unlock()
	if p.New != nil {
		return p.New()
	}
	return nil
}

func (p *Pool) Put(x any) {
	p.mu.Lock()
	p.fresh()
	p.free = append(p.free, x)
	p.mu.Unlock()
}

// Once replaces sync.Once: a second caller that arrives while the function runs
// (it may contain scheduling points) parks cooperatively instead of blocking on
// a real mutex.
type Once struct {
	m    Mutex
	done bool
}

func (o *Once) Do(f func()) {
	o.m.Lock()
	defer o.m.Unlock()
	if !o.done {
		defer func() { o.done = true }()
		f()
	}
}

var asyncTimers atomic.Bool

// SetAsyncTimers chooses the timer-channel semantics of the coming run: false =
// Go >= 1.23 (no stale tick after Stop/Reset), true = the buffered channel of
// earlier releases, where a tick that was not received survives Stop and Reset.
func SetAsyncTimers(on bool) { asyncTimers.Store(on) }

// Timer replaces time.Timer (rewriter rule R13).
type Timer struct {
	C     <-chan time.Time
	inner *time.Timer
	// AfterFunc timers: the function runs on a controlled goroutine
	fn      func()
	stopCh  chan struct{}
	fired   bool
	stopped bool
}

// NewTimer replaces time.NewTimer.
func NewTimer(d time.Duration) *Timer {
	if !asyncTimers.Load() || current() == nil {
		t := time.NewTimer(d)
		return &Timer{C: t.C, inner: t}
	}
	c := make(chan time.Time, 1)
	t := &Timer{C: c}
	t.inner = time.AfterFunc(d, func() {
		select {
		case c <- time.Now():
		default:
		}
	})
	return t
}

// AfterFunc replaces time.AfterFunc: the function runs in a goroutine of its
// own that the scheduler controls (the runtime's timer goroutine would not be).
func AfterFunc(d time.Duration, f func()) *Timer {
	if current() == nil {
		return &Timer{inner: time.AfterFunc(d, f)}
	}
	t := &Timer{fn: f}
	t.arm(d)
	return t
}

func (t *Timer) arm(d time.Duration) {
	stop := make(chan struct{})
	t.stopCh, t.fired, t.stopped = stop, false, false
	Go("time.AfterFunc", func() {
		tm := time.NewTimer(d)
		if Select("time.AfterFunc:wait", false, RecvCase(tm.C), RecvCase(stop)) == 0 {
			if t.stopCh == stop && !t.stopped {
				t.fired = true
				t.fn()
			}
		} else {
			tm.Stop()
		}
	})
}

// Stop is time.Timer.Stop; with the old semantics it reports false for a timer
// that has fired, whether or not its tick was received, and leaves the tick in C.
func (t *Timer) Stop() bool {
	if t.fn != nil {
		if t.fired || t.stopped {
			return false
		}
		t.stopped = true
		close(t.stopCh)
		return true
	}
	ok := t.inner.Stop()
	if !ok {
		if r := current(); r != nil {
			r.mu.Lock()
			r.StopsAfterFire++
			r.mu.Unlock()
		}
	}
	return ok
}

// Reset is time.Timer.Reset (a pending old-style tick stays in C).
func (t *Timer) Reset(d time.Duration) bool {
	if t.fn != nil {
		active := t.Stop()
		t.arm(d)
		return active
	}
	return t.inner.Reset(d)
}

var denseOn atomic.Bool

// SetDense switches the dense scheduling points (rewriter rule R9) on or off for the coming run.
func SetDense(on bool) { denseOn.Store(on) }

// YieldDense is a scheduling point before an ordinary statement; it does
// nothing unless the run uses dense scheduling.
func YieldDense(point string) {
	if !denseOn.Load() {
		return
	}
	r := current()
	if r == nil {
		return
	}
	g := r.self()
	if g == nil || g.abort || g.unchecked > 0 {
		return
	}
	r.park(g, point, nil)
}

// Go replaces a go statement.
func Go(point string, f func()) {
	r := current()
	if r == nil {
		go f()
		return
	}
	g := r.self()
	if g == nil {
		// spawned from an uncontrolled goroutine: stay uncontrolled
		r.mu.Lock()
		r.UncontrolledY++
		r.mu.Unlock()
		go f()
		return
	}
	r.mu.Lock()
	g.spawn++
	name := g.Name + "/" + strconv.Itoa(g.spawn)
	r.mu.Unlock()
	r.Spawn(name, f)
}

// StepsOf: how many scheduling steps the named goroutine has taken so far (-1: unknown).
func (r *Run) StepsOf(name string) int {
	r.mu.Lock()
	defer r.mu.Unlock()
	if g := r.byName[name]; g != nil {
		return g.Steps
	}
	return -1
}

// Stalled: how many goroutines sit out a stall right now.
func (r *Run) Stalled() int {
	r.mu.Lock()
	defer r.mu.Unlock()
	return r.stalled
}

// StalledNs: the simulated time the calling goroutine has been stalled by the scheduler so far.
func StalledNs() time.Duration {
	r := current()
	if r == nil {
		return 0
	}
	if g := r.self(); g != nil {
		return g.StalledNs
	}
	return 0
}

// Runnable returns the parked goroutines that may proceed, sorted by name.
// Only the scheduler calls it, at quiescence.
func (r *Run) Runnable() []*G {
	r.mu.Lock()
	defer r.mu.Unlock()
	var out []*G
	for _, g := range r.byName {
		if g.state != gParked {
			continue
		}
		if g.need != nil {
			g.need.sync(r)
		}
		if g.needRW != nil {
			g.needRW.sync(r)
		}
		if g.need != nil && g.need.held {
			continue
		}
		if g.needRW != nil {
			if g.rwW && (g.needRW.w || g.needRW.r > 0) {
				continue
			}
			if !g.rwW && g.needRW.w {
				continue
			}
		}
		out = append(out, g)
	}
	sort.Slice(out, func(i, j int) bool { return out[i].Name < out[j].Name })
	return out
}

// All returns every goroutine that has not finished, sorted by name, with a
// short state description (for stuck reports).
func (r *Run) All() []string {
	r.mu.Lock()
	defer r.mu.Unlock()
	var out []string
	for _, g := range r.byName {
		switch g.state {
		case gDone:
			continue
		case gParked:
			s := g.Name + " parked@" + g.Point
			if g.need != nil {
				g.need.sync(r)
			}
			if g.needRW != nil {
				g.needRW.sync(r)
			}
			if g.need != nil && g.need.held {
				s += " (mutex held)"
			}
			out = append(out, s)
		case gBlocked:
			out = append(out, g.Name+" blocked@"+g.Point)
		default:
			out = append(out, g.Name+" running@"+g.Point)
		}
	}
	sort.Strings(out)
	return out
}

// Live is the number of controlled goroutines that have not exited.
func (r *Run) Live() int {
	r.mu.Lock()
	defer r.mu.Unlock()
	return r.live
}

// Release hands a token to a parked goroutine.
func (r *Run) Release(g *G, tok Token) {
	g.wake <- tok
}

// abortExit ends a goroutine of a run that is being torn down. Its deferred functions -
// library code among them (unlock, clean-up of a registration) - run now; they must not
// run in parallel with those of the other goroutines that are torn down at the same moment
// (two deferred deletes on one map are a fatal error of the Go runtime), so the exits
// take turns. A goroutine that gets stuck in a deferred function gives the turn up after
// a simulated second.
func (r *Run) abortExit(g *G) {
	g.abort = true
	t := time.NewTimer(time.Second)
	select {
	case r.tdSem <- struct{}{}:
		t.Stop()
		g.tdHeld = true
	case <-t.C:
	}
	runtime.Goexit()
}

// Abort releases everything: parked goroutines Goexit, blocked ones wake
// through AbortCh and Goexit.
func (r *Run) Abort() {
	r.mu.Lock()
	if r.aborting {
		r.mu.Unlock()
		return
	}
	r.aborting = true
	r.mu.Unlock()
	close(r.AbortCh)
}

// Aborting reports whether Abort was called.
func (r *Run) Aborting() bool {
	r.mu.Lock()
	defer r.mu.Unlock()
	return r.aborting
}

// Parked returns all parked goroutines (runnable or not), sorted by name.
func (r *Run) Parked() []*G {
	r.mu.Lock()
	defer r.mu.Unlock()
	var out []*G
	for _, g := range r.byName {
		if g.state == gParked {
			out = append(out, g)
		}
	}
	sort.Slice(out, func(i, j int) bool { return out[i].Name < out[j].Name })
	return out
}

// ---------------------------------------------------------------------------
// Mutex

// Mutex is a cooperative replacement for sync.Mutex.
type Mutex struct {
	held  bool
	ep    uint64 // the run in which the state above was written
	owner *G
	real  sync.Mutex // used when no run is active
}

// sync forgets state written in an earlier run: a cooperative mutex in a
// process-wide object (a package-level variable of a rewritten dependency, say)
// may have been left held by a goroutine that was torn down at the end of a run.
func (m *Mutex) sync(r *Run) {
	if m.ep != r.epoch {
		m.held, m.owner, m.ep = false, nil, r.epoch
	}
}

func (m *RWMutex) sync(r *Run) {
	if m.ep != r.epoch {
		m.w, m.r, m.wOwner, m.ep = false, 0, nil, r.epoch
	}
}

func (m *Mutex) Lock() {
	r := current()
	if r == nil {
		m.real.Lock()
		return
	}
	m.sync(r)
	g := r.self()
	if g == nil {
		// uncontrolled goroutine (the scheduler itself must never get here
		// while the mutex is held)
		r.mu.Lock()
		if m.held {
			r.mu.Unlock()
			panic("zsimrt: uncontrolled goroutine blocks on a cooperative mutex")
		}
		m.held = true
		r.mu.Unlock()
		return
	}
	if g.abort {
		return
	}
	if g.unchecked > 0 {
		// monitor mode (bulk set-up work of a harness): a free mutex is taken without a scheduling point
		r.mu.Lock()
		if !m.held {
			m.held = true
			m.owner = g
			g.addW(m)
			r.mu.Unlock()
			return
		}
		r.mu.Unlock()
	}
	r.park(g, "lock", m)
	r.mu.Lock()
	if m.held {
		r.mu.Unlock()
		panic("zsimrt: released into a held mutex")
	}
	m.held = true
	m.owner = g
	g.addW(m)
	r.mu.Unlock()
}

func (m *Mutex) TryLock() bool {
	r := current()
	if r == nil {
		return m.real.TryLock()
	}
	Yield("trylock")
	g := r.self()
	r.mu.Lock()
	defer r.mu.Unlock()
	m.sync(r)
	if m.held {
		return false
	}
	m.held = true
	if g != nil {
		m.owner = g
		g.addW(m)
	}
	return true
}

func (m *Mutex) Unlock() {
	r := current()
	if r == nil {
		m.real.Unlock()
		return
	}
	r.mu.Lock()
	m.sync(r)
	if !m.held {
		ab := r.aborting
		r.mu.Unlock()
		if ab {
			return
		}
		panic("sync: unlock of unlocked mutex")
	}
	m.held = false
	if m.owner != nil {
		delete(m.owner.heldW, m)
		m.owner = nil
	}
	r.mu.Unlock()
}

// Held is for monitors.
func (m *Mutex) Held() bool { return m.held }

// RWMutex is a cooperative replacement for sync.RWMutex.
type RWMutex struct {
	w      bool
	r      int
	ep     uint64
	wOwner *G
	real   sync.RWMutex
}

func (m *RWMutex) lock(write bool) {
	r := current()
	if r == nil {
		if write {
			m.real.Lock()
		} else {
			m.real.RLock()
		}
		return
	}
	m.sync(r)
	g := r.self()
	if g == nil {
		r.mu.Lock()
		if m.w || (write && m.r > 0) {
			r.mu.Unlock()
			panic("zsimrt: uncontrolled goroutine blocks on a cooperative rwmutex")
		}
		if write {
			m.w = true
		} else {
			m.r++
		}
		r.mu.Unlock()
		return
	}
	if g.abort {
		return
	}
	r.mu.Lock()
	g.needRW = m
	g.rwW = write
	r.mu.Unlock()
	r.parkRW(g, m, write)
	r.mu.Lock()
	if write {
		m.w = true
		m.wOwner = g
		g.addW(m)
	} else {
		m.r++
		g.addR(m)
	}
	r.mu.Unlock()
}

func (r *Run) parkRW(g *G, m *RWMutex, write bool) {
	r.mu.Lock()
	g.state = gParked
	g.Point = "rwlock"
	g.needRW = m
	g.rwW = write
	g.ParkedAt = time.Now()
	r.Yields++
	r.mu.Unlock()
	r.notify()
	tok := <-g.wake
	r.mu.Lock()
	g.state = gRunning
	g.needRW = nil
	g.tok = tok
	g.Steps++
	r.mu.Unlock()
	if tok.Abort {
		r.abortExit(g)
	}
}

// Held is for monitors: a writer or at least one reader holds it.
func (m *RWMutex) Held() bool { return m.w || m.r > 0 }

func (m *RWMutex) Lock()  { m.lock(true) }
func (m *RWMutex) RLock() { m.lock(false) }
func (m *RWMutex) Unlock() {
	r := current()
	if r == nil {
		m.real.Unlock()
		return
	}
	r.mu.Lock()
	m.w = false
	if m.wOwner != nil {
		delete(m.wOwner.heldW, m)
		m.wOwner = nil
	}
	r.mu.Unlock()
}
func (m *RWMutex) RUnlock() {
	r := current()
	if r == nil {
		m.real.RUnlock()
		return
	}
	g := r.self()
	r.mu.Lock()
	if m.r > 0 {
		m.r--
	}
	if g != nil {
		g.delR(m)
	}
	r.mu.Unlock()
}

// ---------------------------------------------------------------------------
// Select / Recv / Sleep

// Case is one communication clause of a rewritten select.
type Case struct {
	Send bool
	Ch   reflect.Value
	Val  reflect.Value
}

// RecvCase builds a receive clause.
func RecvCase(ch any) Case { return Case{Ch: reflect.ValueOf(ch)} }

// SendCase builds a send clause.
func SendCase(ch any, v any) Case {
	c := Case{Send: true, Ch: reflect.ValueOf(ch)}
	if c.Ch.IsValid() && c.Ch.Kind() == reflect.Chan {
		et := c.Ch.Type().Elem()
		if v == nil {
			c.Val = reflect.Zero(et)
		} else {
			c.Val = reflect.ValueOf(v).Convert(et)
		}
	}
	return c
}

func (c Case) usable() bool {
	return c.Ch.IsValid() && c.Ch.Kind() == reflect.Chan && !c.Ch.IsNil()
}

func (c Case) try() (ok bool, val reflect.Value, recvOK bool) {
	if !c.usable() {
		return false, reflect.Value{}, false
	}
	if c.Send {
		return c.Ch.TrySend(c.Val), reflect.Value{}, false
	}
	v, rok := c.Ch.TryRecv()
	if !rok && !v.IsValid() {
		// would block
		return false, reflect.Value{}, false
	}
	// TryRecv: (zero,false) with valid v means closed
	return true, v, rok
}

// SelectV is the general form: it returns the chosen clause index (-1 for
// default), and for a receive clause the received value and ok flag.
func SelectV(point string, hasDefault bool, cases ...Case) (int, reflect.Value, bool) {
	r := current()
	var g *G
	if r != nil {
		g = r.self()
	}
	if r == nil || g == nil || g.abort {
		return plainSelect(hasDefault, cases)
	}
	r.park(g, point, nil)
	n := len(cases)
	start := 0
	if n > 0 {
		start = int(g.tok.Sel % uint32(n))
	}
	for k := 0; k < n; k++ {
		i := (start + k) % n
		if ok, v, rok := cases[i].try(); ok {
			return i, v, rok
		}
	}
	if hasDefault {
		return -1, reflect.Value{}, false
	}
	// block
	sc := make([]reflect.SelectCase, 0, n+1)
	idx := make([]int, 0, n+1)
	for i, c := range cases {
		if !c.usable() {
			continue
		}
		if c.Send {
			sc = append(sc, reflect.SelectCase{Dir: reflect.SelectSend, Chan: c.Ch, Send: c.Val})
		} else {
			sc = append(sc, reflect.SelectCase{Dir: reflect.SelectRecv, Chan: c.Ch})
		}
		idx = append(idx, i)
	}
	sc = append(sc, reflect.SelectCase{Dir: reflect.SelectRecv, Chan: reflect.ValueOf(r.AbortCh)})
	idx = append(idx, -2)
	r.mu.Lock()
	g.state = gBlocked
	g.Point = point
	r.mu.Unlock()
	chosen, v, rok := reflect.Select(sc)
	r.mu.Lock()
	g.state = gRunning
	r.mu.Unlock()
	if idx[chosen] == -2 {
		r.abortExit(g)
	}
	// post-wake scheduling point
	r.park(g, point+"+woke", nil)
	return idx[chosen], v, rok
}

func plainSelect(hasDefault bool, cases []Case) (int, reflect.Value, bool) {
	sc := make([]reflect.SelectCase, 0, len(cases)+1)
	idx := make([]int, 0, len(cases)+1)
	for i, c := range cases {
		if !c.usable() {
			continue
		}
		if c.Send {
			sc = append(sc, reflect.SelectCase{Dir: reflect.SelectSend, Chan: c.Ch, Send: c.Val})
		} else {
			sc = append(sc, reflect.SelectCase{Dir: reflect.SelectRecv, Chan: c.Ch})
		}
		idx = append(idx, i)
	}
	if hasDefault {
		sc = append(sc, reflect.SelectCase{Dir: reflect.SelectDefault})
		idx = append(idx, -1)
	}
	if len(sc) == 0 {
		select {}
	}
	chosen, v, rok := reflect.Select(sc)
	return idx[chosen], v, rok
}

// Select is the form used for clauses that do not bind the received value.
func Select(point string, hasDefault bool, cases ...Case) int {
	i, _, _ := SelectV(point, hasDefault, cases...)
	return i
}

// Recv replaces a blocking receive expression.
func Recv[T any](point string, ch <-chan T) T {
	v, _ := Recv2(point, ch)
	return v
}

// Recv2 replaces a blocking comma-ok receive.
func Recv2[T any](point string, ch <-chan T) (T, bool) {
	r := current()
	if r == nil {
		v, ok := <-ch
		return v, ok
	}
	_, v, ok := SelectV(point, false, Case{Ch: reflect.ValueOf(ch)})
	var out T
	if v.IsValid() {
		out, _ = v.Interface().(T)
	}
	return out, ok
}

// Sleep lets a controlled goroutine sleep simulated time; the scheduler keeps
// running everybody else.
func Sleep(point string, d time.Duration) {
	r := current()
	if r == nil {
		time.Sleep(d)
		return
	}
	if d <= 0 {
		Yield(point)
		return
	}
	t := time.NewTimer(d)
	Select(point, false, RecvCase(t.C))
}

// The global functions of math/rand in rewritten code (R15): one generator per run, seeded
// by the run seed, so that jitter in the library is part of the replayable execution.
func runRand() *mrand.Rand {
	r := current()
	if r == nil {
		return nil
	}
	r.mu.Lock()
	defer r.mu.Unlock()
	if r.rnd == nil {
		r.rnd = mrand.New(mrand.NewSource(int64(r.Seed) ^ 0x6a177e5))
	}
	return r.rnd
}

func randDo[T any](f func(*mrand.Rand) T, g func() T) T {
	if rr := runRand(); rr != nil {
		r := current()
		r.rndMu.Lock()
		defer r.rndMu.Unlock()
		return f(rr)
	}
	return g()
}

func RandIntn(n int) int {
	return randDo(func(r *mrand.Rand) int { return r.Intn(n) }, func() int { return mrand.Intn(n) })
}
func RandInt63n(n int64) int64 {
	return randDo(func(r *mrand.Rand) int64 { return r.Int63n(n) }, func() int64 { return mrand.Int63n(n) })
}
func RandInt31n(n int32) int32 {
	return randDo(func(r *mrand.Rand) int32 { return r.Int31n(n) }, func() int32 { return mrand.Int31n(n) })
}
func RandInt63() int64 { return randDo(func(r *mrand.Rand) int64 { return r.Int63() }, mrand.Int63) }
func RandInt31() int32 { return randDo(func(r *mrand.Rand) int32 { return r.Int31() }, mrand.Int31) }
func RandInt() int     { return randDo(func(r *mrand.Rand) int { return r.Int() }, mrand.Int) }
func RandFloat64() float64 {
	return randDo(func(r *mrand.Rand) float64 { return r.Float64() }, mrand.Float64)
}
func RandFloat32() float32 {
	return randDo(func(r *mrand.Rand) float32 { return r.Float32() }, mrand.Float32)
}
func RandUint32() uint32 {
	return randDo(func(r *mrand.Rand) uint32 { return r.Uint32() }, mrand.Uint32)
}
func RandUint64() uint64 {
	return randDo(func(r *mrand.Rand) uint64 { return r.Uint64() }, mrand.Uint64)
}
func RandPerm(n int) []int {
	return randDo(func(r *mrand.Rand) []int { return r.Perm(n) }, func() []int { return mrand.Perm(n) })
}
func RandShuffle(n int, swap func(i, j int)) {
	randDo(func(r *mrand.Rand) int { r.Shuffle(n, swap); return 0 }, func() int { mrand.Shuffle(n, swap); return 0 })
}

// TimeSleep replaces time.Sleep in rewritten code (R13).
func TimeSleep(d time.Duration) { Sleep("time.Sleep", d) }

// CurrentName returns the name of the calling controlled goroutine ("" if
// uncontrolled).
func CurrentName() string {
	r := current()
	if r == nil {
		return ""
	}
	if g := r.self(); g != nil {
		return g.Name
	}
	return ""
}

// As converts the value received by SelectV to the element type of ch.
func As[T any](ch <-chan T, v reflect.Value) T {
	var out T
	if v.IsValid() {
		out, _ = v.Interface().(T)
	}
	return out
}
