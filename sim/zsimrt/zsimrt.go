// Package zsimrt is the cooperative runtime of the deterministic simulator.
//
// It is copied into a scratch copy of the repository (never into /repo) and is
// called from code that the rewriter (sim/instrument) produced: every
// synchronisation point of the instrumented packages parks the calling
// goroutine here until the scheduler (sim/harness) releases it. Outside a
// simulation (no run active) every entry point degrades to the plain
// operation, so the instrumented packages still work as ordinary Go code.
package zsimrt

import (
	"reflect"
	"runtime"
	"runtime/debug"
	"sort"
	"strconv"
	"sync"
	"sync/atomic"
	"time"
)

// Token is what the scheduler hands to a goroutine when it releases it.
type Token struct {
	Abort bool
	Sel   uint32 // rotation for Select polling order
}

type gstate int

const (
	gRunning gstate = iota
	gParked         // at a yield, waiting for a token
	gBlocked        // inside Select/Recv/Sleep, blocked on real channels
	gDone
)

// G is one controlled goroutine.
type G struct {
	Name   string
	goid   int64
	wake   chan Token
	state  gstate
	Point  string // where it is parked / blocked
	need   *Mutex // parked in Lock: runnable only when free
	needRW *RWMutex
	rwW    bool
	spawn  int
	Passed int // times passed over while runnable (fairness)
	tok    Token
	abort  bool
	// ParkedAt is the simulated time the goroutine became parked (for C13's
	// measured scheduler-induced lateness).
	ParkedAt time.Time
	Steps    int
}

// Run is the state of one simulation run.
type Run struct {
	mu       sync.Mutex
	gs       map[int64]*G
	byName   map[string]*G
	Arrival  chan struct{}
	AbortCh  chan struct{}
	aborting bool
	live     int
	// statistics
	Yields        int64
	UncontrolledY int64
	Spawns        int64
	MaxParked     time.Duration
	// Trace hook: called (by the goroutine itself, serialised by the
	// scheduler discipline) when a goroutine parks. May be nil.
	OnPark func(g *G)
	// OnPanic receives panics of controlled goroutines (nil: re-panic).
	OnPanic func(name string, v any, stack []byte)
}

var (
	curMu sync.RWMutex
	cur   *Run
)

// Begin starts a run. Must be called inside the bubble by the scheduler.
func Begin() *Run {
	r := &Run{
		gs:      map[int64]*G{},
		byName:  map[string]*G{},
		Arrival: make(chan struct{}, 1),
		AbortCh: make(chan struct{}),
	}
	curMu.Lock()
	cur = r
	curMu.Unlock()
	return r
}

// End detaches the run.
func End() {
	curMu.Lock()
	cur = nil
	curMu.Unlock()
}

func current() *Run {
	curMu.RLock()
	r := cur
	curMu.RUnlock()
	return r
}

// Active reports whether a simulation run is active.
func Active() bool { return current() != nil }

func goid() int64 {
	var buf [64]byte
	n := runtime.Stack(buf[:], false)
	// "goroutine 123 ["
	s := buf[10:n]
	i := 0
	for i < len(s) && s[i] >= '0' && s[i] <= '9' {
		i++
	}
	id, _ := strconv.ParseInt(string(s[:i]), 10, 64)
	return id
}

func (r *Run) self() *G {
	id := goid()
	r.mu.Lock()
	g := r.gs[id]
	r.mu.Unlock()
	return g
}

// Spawn starts a named controlled goroutine (used by the harness for tasks and
// by Go for rewritten go statements). The goroutine parks at "start" first.
func (r *Run) Spawn(name string, f func()) *G {
	g := &G{Name: name, wake: make(chan Token)}
	r.mu.Lock()
	if _, dup := r.byName[name]; dup {
		r.mu.Unlock()
		panic("zsimrt: duplicate goroutine name " + name)
	}
	r.byName[name] = g
	r.live++
	r.Spawns++
	r.mu.Unlock()
	go func() {
		g.goid = goid()
		r.mu.Lock()
		r.gs[g.goid] = g
		r.mu.Unlock()
		defer func() {
			if r.OnPanic != nil {
				if v := recover(); v != nil {
					r.OnPanic(g.Name, v, debug.Stack())
				}
			}
			r.mu.Lock()
			g.state = gDone
			delete(r.gs, g.goid)
			r.live--
			r.mu.Unlock()
			r.notify()
		}()
		r.park(g, "start", nil)
		f()
	}()
	return g
}

func (r *Run) notify() {
	select {
	case r.Arrival <- struct{}{}:
	default:
	}
}

// park blocks g until the scheduler releases it.
func (r *Run) park(g *G, point string, need *Mutex) {
	if g.abort {
		return
	}
	r.mu.Lock()
	g.state = gParked
	g.Point = point
	g.need = need
	g.ParkedAt = time.Now()
	r.Yields++
	r.mu.Unlock()
	if r.OnPark != nil {
		r.OnPark(g)
	}
	r.notify()
	tok := <-g.wake
	r.mu.Lock()
	g.state = gRunning
	g.need = nil
	g.needRW = nil
	g.tok = tok
	g.Steps++
	if d := time.Since(g.ParkedAt); d > r.MaxParked {
		r.MaxParked = d
	}
	r.mu.Unlock()
	if tok.Abort {
		g.abort = true
		runtime.Goexit()
	}
}

// Yield is a scheduling point.
func Yield(point string) {
	r := current()
	if r == nil {
		return
	}
	g := r.self()
	if g == nil {
		r.mu.Lock()
		r.UncontrolledY++
		r.mu.Unlock()
		return
	}
	r.park(g, point, nil)
}

// Pool replaces sync.Pool (whose hit-or-miss behaviour depends on the P a
// goroutine runs on and on the garbage collector): a plain LIFO free list, so
// that whether New runs - and with it every scheduling point inside New - is a
// function of the execution alone.
type Pool struct {
	mu   sync.Mutex
	free []any
	New  func() any
}

func (p *Pool) Get() any {
	p.mu.Lock()
	if n := len(p.free); n > 0 {
		x := p.free[n-1]
		p.free = p.free[:n-1]
		p.mu.Unlock()
		return x
	}
	p.mu.Unlock()
	if p.New != nil {
		return p.New()
	}
	return nil
}

func (p *Pool) Put(x any) {
	p.mu.Lock()
	p.free = append(p.free, x)
	p.mu.Unlock()
}

// Once replaces sync.Once: a second caller that arrives while the function runs
// (it may contain scheduling points) parks cooperatively instead of blocking on
// a real mutex.
type Once struct {
	m    Mutex
	done bool
}

func (o *Once) Do(f func()) {
	o.m.Lock()
	defer o.m.Unlock()
	if !o.done {
		defer func() { o.done = true }()
		f()
	}
}

var denseOn atomic.Bool

// SetDense switches the dense scheduling points (rewriter rule R9) on or off for the coming run.
func SetDense(on bool) { denseOn.Store(on) }

// YieldDense is a scheduling point before an ordinary statement; it does
// nothing unless the run uses dense scheduling.
func YieldDense(point string) {
	if !denseOn.Load() {
		return
	}
	r := current()
	if r == nil {
		return
	}
	g := r.self()
	if g == nil || g.abort {
		return
	}
	r.park(g, point, nil)
}

// Go replaces a go statement.
func Go(point string, f func()) {
	r := current()
	if r == nil {
		go f()
		return
	}
	g := r.self()
	if g == nil {
		// spawned from an uncontrolled goroutine: stay uncontrolled
		r.mu.Lock()
		r.UncontrolledY++
		r.mu.Unlock()
		go f()
		return
	}
	r.mu.Lock()
	g.spawn++
	name := g.Name + "/" + strconv.Itoa(g.spawn)
	r.mu.Unlock()
	r.Spawn(name, f)
}

// Runnable returns the parked goroutines that may proceed, sorted by name.
// Only the scheduler calls it, at quiescence.
func (r *Run) Runnable() []*G {
	r.mu.Lock()
	defer r.mu.Unlock()
	var out []*G
	for _, g := range r.byName {
		if g.state != gParked {
			continue
		}
		if g.need != nil && g.need.held {
			continue
		}
		if g.needRW != nil {
			if g.rwW && (g.needRW.w || g.needRW.r > 0) {
				continue
			}
			if !g.rwW && g.needRW.w {
				continue
			}
		}
		out = append(out, g)
	}
	sort.Slice(out, func(i, j int) bool { return out[i].Name < out[j].Name })
	return out
}

// All returns every goroutine that has not finished, sorted by name, with a
// short state description (for stuck reports).
func (r *Run) All() []string {
	r.mu.Lock()
	defer r.mu.Unlock()
	var out []string
	for _, g := range r.byName {
		switch g.state {
		case gDone:
			continue
		case gParked:
			s := g.Name + " parked@" + g.Point
			if g.need != nil && g.need.held {
				s += " (mutex held)"
			}
			out = append(out, s)
		case gBlocked:
			out = append(out, g.Name+" blocked@"+g.Point)
		default:
			out = append(out, g.Name+" running@"+g.Point)
		}
	}
	sort.Strings(out)
	return out
}

// Live is the number of controlled goroutines that have not exited.
func (r *Run) Live() int {
	r.mu.Lock()
	defer r.mu.Unlock()
	return r.live
}

// Release hands a token to a parked goroutine.
func (r *Run) Release(g *G, tok Token) {
	g.wake <- tok
}

// Abort releases everything: parked goroutines Goexit, blocked ones wake
// through AbortCh and Goexit.
func (r *Run) Abort() {
	r.mu.Lock()
	if r.aborting {
		r.mu.Unlock()
		return
	}
	r.aborting = true
	r.mu.Unlock()
	close(r.AbortCh)
}

// Aborting reports whether Abort was called.
func (r *Run) Aborting() bool {
	r.mu.Lock()
	defer r.mu.Unlock()
	return r.aborting
}

// Parked returns all parked goroutines (runnable or not), sorted by name.
func (r *Run) Parked() []*G {
	r.mu.Lock()
	defer r.mu.Unlock()
	var out []*G
	for _, g := range r.byName {
		if g.state == gParked {
			out = append(out, g)
		}
	}
	sort.Slice(out, func(i, j int) bool { return out[i].Name < out[j].Name })
	return out
}

// ---------------------------------------------------------------------------
// Mutex

// Mutex is a cooperative replacement for sync.Mutex.
type Mutex struct {
	held bool
	real sync.Mutex // used when no run is active
}

func (m *Mutex) Lock() {
	r := current()
	if r == nil {
		m.real.Lock()
		return
	}
	g := r.self()
	if g == nil {
		// uncontrolled goroutine (the scheduler itself must never get here
		// while the mutex is held)
		r.mu.Lock()
		if m.held {
			r.mu.Unlock()
			panic("zsimrt: uncontrolled goroutine blocks on a cooperative mutex")
		}
		m.held = true
		r.mu.Unlock()
		return
	}
	if g.abort {
		return
	}
	r.park(g, "lock", m)
	r.mu.Lock()
	if m.held {
		r.mu.Unlock()
		panic("zsimrt: released into a held mutex")
	}
	m.held = true
	r.mu.Unlock()
}

func (m *Mutex) TryLock() bool {
	r := current()
	if r == nil {
		return m.real.TryLock()
	}
	Yield("trylock")
	r.mu.Lock()
	defer r.mu.Unlock()
	if m.held {
		return false
	}
	m.held = true
	return true
}

func (m *Mutex) Unlock() {
	r := current()
	if r == nil {
		m.real.Unlock()
		return
	}
	r.mu.Lock()
	if !m.held {
		ab := r.aborting
		r.mu.Unlock()
		if ab {
			return
		}
		panic("sync: unlock of unlocked mutex")
	}
	m.held = false
	r.mu.Unlock()
}

// Held is for monitors.
func (m *Mutex) Held() bool { return m.held }

// RWMutex is a cooperative replacement for sync.RWMutex.
type RWMutex struct {
	w    bool
	r    int
	real sync.RWMutex
}

func (m *RWMutex) lock(write bool) {
	r := current()
	if r == nil {
		if write {
			m.real.Lock()
		} else {
			m.real.RLock()
		}
		return
	}
	g := r.self()
	if g == nil {
		r.mu.Lock()
		if m.w || (write && m.r > 0) {
			r.mu.Unlock()
			panic("zsimrt: uncontrolled goroutine blocks on a cooperative rwmutex")
		}
		if write {
			m.w = true
		} else {
			m.r++
		}
		r.mu.Unlock()
		return
	}
	if g.abort {
		return
	}
	r.mu.Lock()
	g.needRW = m
	g.rwW = write
	r.mu.Unlock()
	r.parkRW(g, m, write)
	r.mu.Lock()
	if write {
		m.w = true
	} else {
		m.r++
	}
	r.mu.Unlock()
}

func (r *Run) parkRW(g *G, m *RWMutex, write bool) {
	r.mu.Lock()
	g.state = gParked
	g.Point = "rwlock"
	g.needRW = m
	g.rwW = write
	g.ParkedAt = time.Now()
	r.Yields++
	r.mu.Unlock()
	r.notify()
	tok := <-g.wake
	r.mu.Lock()
	g.state = gRunning
	g.needRW = nil
	g.tok = tok
	g.Steps++
	r.mu.Unlock()
	if tok.Abort {
		g.abort = true
		runtime.Goexit()
	}
}

// Held is for monitors: a writer or at least one reader holds it.
func (m *RWMutex) Held() bool { return m.w || m.r > 0 }

func (m *RWMutex) Lock()  { m.lock(true) }
func (m *RWMutex) RLock() { m.lock(false) }
func (m *RWMutex) Unlock() {
	r := current()
	if r == nil {
		m.real.Unlock()
		return
	}
	r.mu.Lock()
	m.w = false
	r.mu.Unlock()
}
func (m *RWMutex) RUnlock() {
	r := current()
	if r == nil {
		m.real.RUnlock()
		return
	}
	r.mu.Lock()
	if m.r > 0 {
		m.r--
	}
	r.mu.Unlock()
}

// ---------------------------------------------------------------------------
// Select / Recv / Sleep

// Case is one communication clause of a rewritten select.
type Case struct {
	Send bool
	Ch   reflect.Value
	Val  reflect.Value
}

// RecvCase builds a receive clause.
func RecvCase(ch any) Case { return Case{Ch: reflect.ValueOf(ch)} }

// SendCase builds a send clause.
func SendCase(ch any, v any) Case {
	c := Case{Send: true, Ch: reflect.ValueOf(ch)}
	if c.Ch.IsValid() && c.Ch.Kind() == reflect.Chan {
		et := c.Ch.Type().Elem()
		if v == nil {
			c.Val = reflect.Zero(et)
		} else {
			c.Val = reflect.ValueOf(v).Convert(et)
		}
	}
	return c
}

func (c Case) usable() bool {
	return c.Ch.IsValid() && c.Ch.Kind() == reflect.Chan && !c.Ch.IsNil()
}

func (c Case) try() (ok bool, val reflect.Value, recvOK bool) {
	if !c.usable() {
		return false, reflect.Value{}, false
	}
	if c.Send {
		return c.Ch.TrySend(c.Val), reflect.Value{}, false
	}
	v, rok := c.Ch.TryRecv()
	if !rok && !v.IsValid() {
		// would block
		return false, reflect.Value{}, false
	}
	// TryRecv: (zero,false) with valid v means closed
	return true, v, rok
}

// SelectV is the general form: it returns the chosen clause index (-1 for
// default), and for a receive clause the received value and ok flag.
func SelectV(point string, hasDefault bool, cases ...Case) (int, reflect.Value, bool) {
	r := current()
	var g *G
	if r != nil {
		g = r.self()
	}
	if r == nil || g == nil || g.abort {
		return plainSelect(hasDefault, cases)
	}
	r.park(g, point, nil)
	n := len(cases)
	start := 0
	if n > 0 {
		start = int(g.tok.Sel % uint32(n))
	}
	for k := 0; k < n; k++ {
		i := (start + k) % n
		if ok, v, rok := cases[i].try(); ok {
			return i, v, rok
		}
	}
	if hasDefault {
		return -1, reflect.Value{}, false
	}
	// block
	sc := make([]reflect.SelectCase, 0, n+1)
	idx := make([]int, 0, n+1)
	for i, c := range cases {
		if !c.usable() {
			continue
		}
		if c.Send {
			sc = append(sc, reflect.SelectCase{Dir: reflect.SelectSend, Chan: c.Ch, Send: c.Val})
		} else {
			sc = append(sc, reflect.SelectCase{Dir: reflect.SelectRecv, Chan: c.Ch})
		}
		idx = append(idx, i)
	}
	sc = append(sc, reflect.SelectCase{Dir: reflect.SelectRecv, Chan: reflect.ValueOf(r.AbortCh)})
	idx = append(idx, -2)
	r.mu.Lock()
	g.state = gBlocked
	g.Point = point
	r.mu.Unlock()
	chosen, v, rok := reflect.Select(sc)
	r.mu.Lock()
	g.state = gRunning
	r.mu.Unlock()
	if idx[chosen] == -2 {
		g.abort = true
		runtime.Goexit()
	}
	// post-wake scheduling point
	r.park(g, point+"+woke", nil)
	return idx[chosen], v, rok
}

func plainSelect(hasDefault bool, cases []Case) (int, reflect.Value, bool) {
	sc := make([]reflect.SelectCase, 0, len(cases)+1)
	idx := make([]int, 0, len(cases)+1)
	for i, c := range cases {
		if !c.usable() {
			continue
		}
		if c.Send {
			sc = append(sc, reflect.SelectCase{Dir: reflect.SelectSend, Chan: c.Ch, Send: c.Val})
		} else {
			sc = append(sc, reflect.SelectCase{Dir: reflect.SelectRecv, Chan: c.Ch})
		}
		idx = append(idx, i)
	}
	if hasDefault {
		sc = append(sc, reflect.SelectCase{Dir: reflect.SelectDefault})
		idx = append(idx, -1)
	}
	if len(sc) == 0 {
		select {}
	}
	chosen, v, rok := reflect.Select(sc)
	return idx[chosen], v, rok
}

// Select is the form used for clauses that do not bind the received value.
func Select(point string, hasDefault bool, cases ...Case) int {
	i, _, _ := SelectV(point, hasDefault, cases...)
	return i
}

// Recv replaces a blocking receive expression.
func Recv[T any](point string, ch <-chan T) T {
	v, _ := Recv2(point, ch)
	return v
}

// Recv2 replaces a blocking comma-ok receive.
func Recv2[T any](point string, ch <-chan T) (T, bool) {
	r := current()
	if r == nil {
		v, ok := <-ch
		return v, ok
	}
	_, v, ok := SelectV(point, false, Case{Ch: reflect.ValueOf(ch)})
	var out T
	if v.IsValid() {
		out, _ = v.Interface().(T)
	}
	return out, ok
}

// Sleep lets a controlled goroutine sleep simulated time; the scheduler keeps
// running everybody else.
func Sleep(point string, d time.Duration) {
	r := current()
	if r == nil {
		time.Sleep(d)
		return
	}
	if d <= 0 {
		Yield(point)
		return
	}
	t := time.NewTimer(d)
	Select(point, false, RecvCase(t.C))
}

// CurrentName returns the name of the calling controlled goroutine ("" if
// uncontrolled).
func CurrentName() string {
	r := current()
	if r == nil {
		return ""
	}
	if g := r.self(); g != nil {
		return g.Name
	}
	return ""
}

// As converts the value received by SelectV to the element type of ch.
func As[T any](ch <-chan T, v reflect.Value) T {
	var out T
	if v.IsValid() {
		out, _ = v.Interface().(T)
	}
	return out
}
