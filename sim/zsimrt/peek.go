package zsimrt

import (
	"reflect"
	"unsafe"
)

// Reflection helpers for the test-only accessor files (overlays). The overlays
// look at internal state of the library for monitors and residue oracles; they
// go through these helpers rather than through typed field access so that a
// change of the library's internal data layout does not stop the harness from
// compiling (what cannot be found is reported as "unknown", never guessed).

// clean returns v without the read-only flag that reflect puts on values reached
// through unexported fields (v must be addressable).
func clean(v reflect.Value) reflect.Value {
	if !v.IsValid() || !v.CanAddr() {
		return v
	}
	return reflect.NewAt(v.Type(), unsafe.Pointer(v.UnsafeAddr())).Elem()
}

// Deref follows pointers and interfaces down to the first value that is neither.
func Deref(v reflect.Value) reflect.Value {
	for v.IsValid() && (v.Kind() == reflect.Ptr || v.Kind() == reflect.Interface) {
		if v.IsNil() {
			return reflect.Value{}
		}
		v = v.Elem()
	}
	return v
}

// Field returns the named field of the struct that obj is or points to.
func Field(obj any, name string) (reflect.Value, bool) {
	v, ok := obj.(reflect.Value)
	if !ok {
		v = reflect.ValueOf(obj)
	}
	v = Deref(v)
	if !v.IsValid() || v.Kind() != reflect.Struct {
		return reflect.Value{}, false
	}
	f := v.FieldByName(name)
	if !f.IsValid() {
		return reflect.Value{}, false
	}
	return clean(f), true
}

// IntField reads an integer field (any int/uint kind) by name.
func IntField(obj any, name string) (int, bool) {
	f, ok := Field(obj, name)
	if !ok {
		return 0, false
	}
	switch f.Kind() {
	case reflect.Int, reflect.Int8, reflect.Int16, reflect.Int32, reflect.Int64:
		return int(f.Int()), true
	case reflect.Uint, reflect.Uint8, reflect.Uint16, reflect.Uint32, reflect.Uint64:
		return int(f.Uint()), true
	}
	return 0, false
}

// SetIntField sets an integer or time.Duration field by name, if there is one.
func SetIntField(obj any, name string, x int64) bool {
	f, ok := Field(obj, name)
	if !ok || !f.CanSet() {
		return false
	}
	switch f.Kind() {
	case reflect.Int, reflect.Int8, reflect.Int16, reflect.Int32, reflect.Int64:
		f.SetInt(x)
		return true
	}
	return false
}

// LenOf: length of a map, slice, array or channel, or the result of a Len()
// method (tried on the value and on its address), following pointers.
func LenOf(v reflect.Value) (int, bool) {
	if !v.IsValid() {
		return 0, false
	}
	for _, c := range []reflect.Value{v, addrOf(v)} {
		if !c.IsValid() {
			continue
		}
		if m := c.MethodByName("Len"); m.IsValid() && m.Type().NumIn() == 0 && m.Type().NumOut() == 1 && m.Type().Out(0).Kind() == reflect.Int {
			n := 0
			Unchecked(func() { n = int(m.Call(nil)[0].Int()) })
			return n, true
		}
	}
	d := Deref(v)
	if !d.IsValid() {
		return 0, true // a nil pointer to a collection: empty
	}
	switch d.Kind() {
	case reflect.Map, reflect.Slice, reflect.Array, reflect.Chan:
		return d.Len(), true
	}
	return 0, false
}

func addrOf(v reflect.Value) reflect.Value {
	if v.IsValid() && v.CanAddr() {
		return v.Addr()
	}
	return reflect.Value{}
}

// WalkMaps calls visit for every map reachable from root through struct fields,
// pointers, interfaces, arrays and slices (bounded depth, each pointer once).
func WalkMaps(root any, visit func(m reflect.Value)) {
	seen := map[uintptr]bool{}
	var walk func(v reflect.Value, depth int)
	walk = func(v reflect.Value, depth int) {
		if !v.IsValid() || depth > 6 {
			return
		}
		switch v.Kind() {
		case reflect.Ptr, reflect.Interface:
			if v.IsNil() {
				return
			}
			if v.Kind() == reflect.Ptr {
				if seen[v.Pointer()] {
					return
				}
				seen[v.Pointer()] = true
			}
			walk(v.Elem(), depth+1)
		case reflect.Struct:
			for i := 0; i < v.NumField(); i++ {
				walk(clean(v.Field(i)), depth+1)
			}
		case reflect.Array, reflect.Slice:
			n := v.Len()
			if n > 4096 {
				n = 4096
			}
			for i := 0; i < n; i++ {
				walk(clean(v.Index(i)), depth+1)
			}
		case reflect.Map:
			visit(v)
		}
	}
	v, ok := root.(reflect.Value)
	if !ok {
		v = reflect.ValueOf(root)
	}
	walk(v, 0)
}

// FindTyped searches v (a struct, a pointer to one, or the value itself) for a
// value of type t, at most two levels deep.
func FindTyped(v reflect.Value, t reflect.Type) (reflect.Value, bool) {
	var find func(v reflect.Value, depth int) (reflect.Value, bool)
	find = func(v reflect.Value, depth int) (reflect.Value, bool) {
		v = Deref(v)
		if !v.IsValid() {
			return reflect.Value{}, false
		}
		if v.Type() == t {
			return v, true
		}
		if v.Kind() == reflect.Struct && depth < 2 {
			for i := 0; i < v.NumField(); i++ {
				if r, ok := find(v.Field(i), depth+1); ok {
					return r, true
				}
			}
		}
		return reflect.Value{}, false
	}
	return find(v, 0)
}

// ListWalk follows the pointer field `next` from head and counts the nodes and
// those whose integer field `cnt` is not zero.
func ListWalk(head reflect.Value, next, cnt string) (nodes, pinned int, ok bool) {
	// nodes that the head still points BACK to are reachable as well (a removed node that the
	// new head keeps as its predecessor, and whatever hangs behind it)
	if h := Deref(head); h.IsValid() && h.Kind() == reflect.Struct {
		if pv := h.FieldByName("prev"); pv.IsValid() {
			seen := 0
			for q := pv; seen < 1<<16; seen++ {
				d := Deref(q)
				if !d.IsValid() || d.Kind() != reflect.Struct {
					break
				}
				nodes++
				q = d.FieldByName("prev")
				if !q.IsValid() {
					break
				}
			}
		}
	}
	p := head
	for {
		d := Deref(p)
		if !d.IsValid() {
			return nodes, pinned, true
		}
		if d.Kind() != reflect.Struct || !d.FieldByName(next).IsValid() {
			return 0, 0, false
		}
		nodes++
		if c := d.FieldByName(cnt); c.IsValid() && c.Kind() >= reflect.Int && c.Kind() <= reflect.Int64 && c.Int() != 0 {
			pinned++
		}
		if nodes > 1<<24 {
			return nodes, pinned, true
		}
		p = d.FieldByName(next)
	}
}
