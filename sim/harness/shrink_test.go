package harness

import (
	"encoding/json"
	"fmt"
	"os"
	"testing"
	"time"

	"verifharness/sim"
)

// doShrink minimises a failing (case, tape) while the same oracle of the same
// property keeps firing (DESIGN.md 2.8). The best candidate so far is kept in
// <out>.best so that a worker that has to exit (dirty run) can be resumed.
func doShrink(t *testing.T, job *Job) {
	rf := job.Replay
	start := time.Now()
	budget := job.ShrinkBudgetS
	if budget <= 0 {
		budget = 90
	}
	maxRuns := job.ShrinkMaxRuns
	if maxRuns <= 0 {
		maxRuns = 400
	}
	runs := 0
	best := rf.Case.Clone()
	bestTape := append([]int64(nil), rf.Tape...)
	var bestRes *sim.Result
	origOps, origFaults, origTape := nonNop(best), len(best.Faults), len(bestTape)

	save := func() {
		out := *rf
		out.Case = best
		out.Tape = bestTape
		if bestRes != nil {
			for _, v := range bestRes.Violations {
				if v.Prop == rf.Property && v.Oracle == rf.Expect.Oracle {
					out.Expect.Message = v.Msg
				}
			}
			out.Expect.TraceHash = bestRes.TraceHash
		}
		out.MinimisedFrom = map[string]int{"ops": origOps, "faults": origFaults, "tape": origTape, "shrink_runs": runs}
		b, _ := json.MarshalIndent(&out, "", " ")
		os.WriteFile(job.Out+".best", b, 0o644)
	}
	exhausted := func() bool {
		return runs >= maxRuns || time.Since(start).Seconds() > budget
	}
	stepLimit := 0
	try := func(c *sim.Case, tape []int64) bool {
		if exhausted() {
			return false
		}
		if stepLimit > 0 && (c.Sched.MaxSteps == 0 || c.Sched.MaxSteps > stepLimit) {
			// a candidate may not run much longer than the run being minimised (a variant that
			// spins until a multi-million step budget is used up would eat the whole shrink budget)
			c.Sched.MaxSteps = stepLimit
		}
		runs++
		res, rec := runOne(t, c, rf.RunSeed, tape, true, false)
		if os.Getenv("DSIM_SHRINK_CHECK") != "" {
			res2, _ := runOne(t, c.Clone(), rf.RunSeed, tape, true, false)
			fmt.Fprintf(os.Stderr, "SHRINKCHECK run=%d h1=%s h2=%s steps=%d/%d\n", runs, res.TraceHash, res2.TraceHash, res.Steps, res2.Steps)
		}
		hit := false
		for _, v := range res.Violations {
			if v.Prop == rf.Property && v.Oracle == rf.Expect.Oracle {
				hit = true
			}
		}
		if res.Dirty {
			if hit {
				best, bestTape, bestRes = c, trim(rec), res
			}
			save()
			emit(map[string]any{"t": "shrink_exit", "reason": "dirty", "runs": runs})
			out.Flush()
			outF.Close()
			os.Exit(3)
		}
		if hit {
			best, bestTape, bestRes = c, trim(rec), res
			save()
		}
		return hit
	}

	// 0. confirm
	if !try(best.Clone(), bestTape) {
		emit(map[string]any{"t": "shrink", "ok": false, "reason": "does not reproduce", "runs": runs})
		return
	}
	if bestRes != nil {
		stepLimit = int(bestRes.Steps)*3 + 20000
	}
	for round := 0; round < 3 && !exhausted(); round++ {
		progress := false
		// 1. drop whole tasks
		for i := len(best.Tasks) - 1; i >= 0 && len(best.Tasks) > 1 && !exhausted(); i-- {
			if i >= len(best.Tasks) {
				continue
			}
			c := best.Clone()
			c.Tasks = append(c.Tasks[:i], c.Tasks[i+1:]...)
			if try(c, bestTape) {
				progress = true
			}
		}
		// 2. drop faults: in chunks first (long fault plans would otherwise use up the budget one
		// entry at a time), then singly
		for chunk := len(best.Faults) / 2; chunk >= 2 && !exhausted(); chunk /= 2 {
			for from := 0; from < len(best.Faults) && !exhausted(); {
				to := from + chunk
				if to > len(best.Faults) {
					to = len(best.Faults)
				}
				c := best.Clone()
				c.Faults = append(append([]sim.Fault{}, c.Faults[:from]...), c.Faults[to:]...)
				if try(c, bestTape) {
					progress = true // best is shorter now: the same offset names the next chunk
				} else {
					from = to
				}
			}
		}
		for i := len(best.Faults) - 1; i >= 0 && !exhausted(); i-- {
			if i >= len(best.Faults) {
				continue
			}
			c := best.Clone()
			c.Faults = append(c.Faults[:i], c.Faults[i+1:]...)
			if try(c, bestTape) {
				progress = true
			}
		}
		// 3. drop operations (replace by nop so that references stay valid);
		// first halves of each task's tail, then single operations
		for ti := range best.Tasks {
			n := len(best.Tasks[ti].Ops)
			for size := n / 2; size >= 1 && !exhausted(); size /= 2 {
				for lo := n - size; lo >= 0 && !exhausted(); lo -= size {
					c := best.Clone()
					changed := false
					for k := lo; k < lo+size && k < n; k++ {
						if c.Tasks[ti].Ops[k].K != "nop" {
							c.Tasks[ti].Ops[k] = sim.Op{K: "nop"}
							changed = true
						}
					}
					if changed && try(c, bestTape) {
						progress = true
					}
				}
			}
		}
		// 4. tape: shortest prefix (binary search), then zero blocks
		lo, hi := 0, len(bestTape)
		for lo < hi && !exhausted() {
			mid := (lo + hi) / 2
			if try(best.Clone(), append([]int64(nil), bestTape[:mid]...)) {
				hi = len(bestTape)
				if hi > mid {
					hi = mid
				}
				progress = true
			} else {
				lo = mid + 1
			}
		}
		for size := len(bestTape) / 2; size >= 4 && !exhausted(); size /= 2 {
			for off := 0; off+size <= len(bestTape) && !exhausted(); off += size {
				tp := append([]int64(nil), bestTape...)
				nz := false
				for k := off; k < off+size; k++ {
					if tp[k] != 0 {
						nz = true
						tp[k] = 0
					}
				}
				if nz && try(best.Clone(), tp) {
					progress = true
				}
			}
		}
		if !progress {
			break
		}
	}
	// strip trailing nops
	c := best.Clone()
	for ti := range c.Tasks {
		ops := c.Tasks[ti].Ops
		for len(ops) > 0 && ops[len(ops)-1].K == "nop" {
			ops = ops[:len(ops)-1]
		}
		c.Tasks[ti].Ops = ops
	}
	runs-- // the confirmation does not count against the budget
	saved := maxRuns
	maxRuns = runs + 2
	try(c, bestTape)
	maxRuns = saved
	save()
	emit(map[string]any{"t": "shrink", "ok": true, "runs": runs, "ops": nonNop(best), "faults": len(best.Faults), "tape": len(bestTape), "from_ops": origOps, "from_faults": origFaults, "from_tape": origTape})
}

func nonNop(c *sim.Case) int {
	n := 0
	for _, t := range c.Tasks {
		for _, o := range t.Ops {
			if o.K != "nop" {
				n++
			}
		}
	}
	return n
}

// trim removes trailing zeros (a draw past the end of the tape is 0 anyway).
func trim(x []int64) []int64 {
	n := len(x)
	for n > 0 && x[n-1] == 0 {
		n--
	}
	return append([]int64(nil), x[:n]...)
}
