package lock

import (
	"fmt"
	"time"

	"verifharness/sim"
)

func cancelSpec(r *sim.Rng, lease time.Duration) int64 {
	switch r.Intn(10) {
	case 0:
		return 0 // cancelled before the call
	case 1, 2, 3:
		return int64(1 + r.Intn(14)) // after n yields of the canceller
	case 7:
		// tied to the next Unlock of anybody: lands exactly at a hand-off
		return int64(sim.Pick(r, 998, 999))
	case 4, 5, 6:
		// time based: lands in a wait
		return 1000 + int64(sim.Pick(r, time.Microsecond, 50*time.Microsecond, time.Millisecond, 20*time.Millisecond, lease/4, lease))
	default:
		return -1
	}
}

func csSleep(r *sim.Rng, lease time.Duration) int64 {
	switch r.Intn(8) {
	case 0, 1, 2:
		return 0
	case 3:
		return int64(time.Microsecond)
	case 4:
		return int64(time.Millisecond)
	case 5:
		return int64(100 * time.Millisecond)
	case 6:
		return int64(lease / 3)
	default:
		return int64(lease*3/4 + time.Duration(r.Intn(1000))*time.Microsecond)
	}
}

func schedFor(r *sim.Rng, shortest time.Duration) sim.SchedCfg {
	F := sim.Pick(r, 16, 64, 256)
	prof := sim.Pick(r, int64(10), int64(1000), int64(50000))
	capJ := int64(shortest) / int64(16*F)
	if capJ < 1 {
		capJ = 1
	}
	if prof > capJ {
		prof = capJ
	}
	s := sim.SchedCfg{F: F, MaxJitter: prof, StickyPct: sim.Pick(r, 0, 30, 70, 90), MaxSteps: 60000, HorizonNs: int64(5 * time.Minute)}
	if r.Chance(1, 4) {
		s.PCTDepth = 2 + r.Intn(4)
		s.PCTLen = 400
	}
	return s
}

// Generate builds a case for C01, C04 or C05.
func Generate(r *sim.Rng, prop, tier string, idx int) *sim.Case {
	c := &sim.Case{World: "lock", Prop: prop, Knobs: map[string]int64{}}
	backendKind := int64(0)
	// C04 is fault-free by definition; over a network a cancelled Create that
	// is already on the wire acts as a reply-lost fault (DESIGN 10.2), so C04
	// runs on the in-memory backend only
	if tier == "thorough" && r.Chance(1, 4) && prop != "C04" {
		backendKind = 1
	}
	if tier != "thorough" && r.Chance(1, 12) && prop != "C04" {
		backendKind = 1
	}
	c.Knobs["backend"] = backendKind
	switch prop {
	case "C01":
		genC01(r, c, tier, idx)
	case "C04":
		genC04(r, c, tier)
	default:
		genC05(r, c, tier, idx)
	}
	if c.Knobs["backend"] == 1 && r.Chance(1, 3) {
		// the Redis server's clock is off against the clients' by a good part of a lease or more
		lease := time.Duration(c.Knobs["lease_ns"])
		c.Knobs["redis_clock_skew_ns"] = int64(sim.Pick(r, -2*lease, -lease/2, lease/2, lease, 3*lease))
	}
	if r.Chance(1, 3) {
		c.Knobs["deadline_ctx"] = 1 // time limits of attempts are deadlines of their contexts (in-memory backend)
	}
	if r.Chance(1, 5) {
		c.Knobs["wrap_errors"] = 1 // a storage that annotates its errors (errors.Is still identifies them)
	}
	if r.Chance(1, 5) {
		c.Knobs["other_lockers"] = int64(1 + r.Intn(20)) // lockers of other names were requested first
	}
	if r.Chance(1, 6) {
		c.Knobs["ctx_cause"] = int64(1 + r.Intn(4)) // contexts end with an error of the caller's own
	}
	if r.Chance(1, 4) {
		c.Knobs["ctx_blind"] = 1 // a storage that does not look at the context of its short calls
	}
	if r.Chance(1, 3) {
		// a remote storage: failures arrive as gRPC status errors (see injErrs)
		c.Knobs["err_kind"] = int64(1 + r.Intn(5))
	}
	hangs := false
	for _, f := range c.Faults {
		if f.Kind == "stall_lost" || f.Kind == "stall" {
			hangs = true // a hanging call occupies a timer worker: the second lock's lease would not be kept either
		}
	}
	// (renewal faults are planned by the ordinal of the renewal call: a second lock's renewals
	// would shift a plan that counts on consecutive failures of "L")
	if c.Mode != "enum" && c.Mode != "orphan" && !hangs && c.Knobs["noise_lock"] == 0 && c.Knobs["streak_across_tenures"] == 0 && r.Chance(1, 6) {
		// the providers also serve a second lock with a related name
		lease := time.Duration(c.Knobs["lease_ns"])
		c.Knobs["noise_lock"] = int64(1 + r.Intn(6))
		c.Knobs["noise_tasks"] = int64(1 + r.Intn(3))
		c.Knobs["noise_ops"] = int64(1 + r.Intn(4))
		c.Knobs["noise_hold_ns"] = int64(sim.Pick(r, 0, lease/10, lease*2/3))
	}
	if c.Knobs["noise_lock"] > 0 {
		// the second lock's renewals run on the same timer workers and take as long as
		// the storage takes: with one worker a due renewal of "L" can sit behind one of
		// them. The renewal schedule (T/2, retry after T/8) has 3T/8 of slack for
		// 3 storage latencies + such delays, so the storage is kept within T/20 here
		lease := time.Duration(c.Knobs["lease_ns"])
		if c.Knobs["cas_latency_ns"] > int64(lease/20) {
			c.Knobs["cas_latency_ns"] = int64(lease / 20)
		}
	}
	if prop != "C04" && c.Mode != "enum" && c.Mode != "orphan" && c.Knobs["bg_timers"] == 0 && r.Chance(1, 6) {
		// the timeout package is process-wide: other code uses it as well
		lease := time.Duration(c.Knobs["lease_ns"])
		c.Knobs["bg_timers"] = int64(1 + r.Intn(3))
		c.Knobs["bg_period_ns"] = int64(sim.Pick(r, lease/7, lease/3, lease))
		if r.Chance(1, 3) {
			c.Knobs["bg_work_ns"] = int64(lease / 200)
		}
	}
	return c
}

func genC01(r *sim.Rng, c *sim.Case, tier string, idx int) {
	lease := sim.Pick(r, 10*time.Second, 10*time.Second, time.Second)
	c.Knobs["lease_ns"] = int64(lease)
	c.Sched = schedFor(r, lease)
	if r.Chance(3, 20) {
		// single-fault enumeration on a fixed small program
		c.Mode = "enum"
		c.Knobs["providers"] = 2
		c.Knobs["lockers"] = 2
		for t := 0; t < 3; t++ {
			task := sim.Task{Name: fmt.Sprintf("t%d", t)}
			for i := 0; i < 2; i++ {
				task.Ops = append(task.Ops, sim.Op{K: "lockctx", E: -1, N: 1})
			}
			c.Tasks = append(c.Tasks, task)
			c.Knobs["locker_"+task.Name] = int64(t % 2)
		}
		k := idx / 1
		c.Faults = []sim.Fault{{Seam: "acq", Kind: sim.Pick(r, "req_lost", "reply_lost"), Ord: int64(1 + k%14)}}
		return
	}
	if r.Chance(1, 8) {
		// "orphan": the Delete of an Unlock is lost, the record of the finished tenure stays
		// until its lease ends; the same Locker comes back around that instant while
		// another Locker waits for it, and the storage answers slowly - whatever a
		// Locker concludes from an answer may be out of date when it acts on it
		c.Mode = "orphan"
		c.Knobs["providers"] = 2
		c.Knobs["lockers"] = 2
		L := sim.Pick(r, lease/20, lease/8)
		c.Knobs["acq_reply_latency_ns"] = int64(L)
		h := time.Duration(r.I64n(int64(lease / 3)))
		x := time.Duration(r.I64n(int64(2*L))) - L/2
		s := lease - x - L - h
		c.Tasks = []sim.Task{
			{Name: "t0", Ops: []sim.Op{
				{K: "lockctx", E: -1, D: int64(h)},
				{K: "sleep", D: int64(s)},
				{K: "lockctx", E: -1, D: int64(lease / 2)},
			}},
			{Name: "t1", Ops: []sim.Op{
				{K: "sleep", D: int64(lease/2) + r.I64n(int64(lease/4))},
				{K: "lockctx", E: -1, D: int64(4*L) + r.I64n(int64(lease/2))},
			}},
		}
		c.Knobs["locker_t0"] = 0
		c.Knobs["locker_t1"] = 1
		if r.Chance(1, 3) {
			// a third party that only tries
			c.Tasks = append(c.Tasks, sim.Task{Name: "t2", Ops: []sim.Op{
				{K: "sleep", D: int64(lease) + r.I64n(int64(lease/2))},
				{K: "trylock", D: int64(L)},
				{K: "sleep", D: int64(L)},
				{K: "trylock", D: int64(L)},
			}})
			c.Knobs["locker_t2"] = 1
		}
		c.Faults = []sim.Fault{{Seam: "acq", Kind: "req_lost", Ord: 2}}
		return
	}
	c.Mode = "rand"
	np := 1 + r.Intn(2)
	nl := 2 + r.Intn(3)
	nt := 2 + r.Intn(4)
	if tier == "thorough" && r.Chance(1, 5) {
		nt = 2 + r.Intn(5)
	}
	c.Knobs["providers"] = int64(np)
	c.Knobs["lockers"] = int64(nl)
	nf := sim.Pick(r, 0, 0, 1, 1, 2)
	for t := 0; t < nt; t++ {
		task := sim.Task{Name: fmt.Sprintf("t%d", t)}
		c.Knobs["locker_"+task.Name] = int64(r.Intn(nl))
		n := 1 + r.Intn(4)
		for i := 0; i < n; i++ {
			op := sim.Op{N: int64(r.Intn(4)), D: csSleep(r, lease)}
			switch r.Intn(10) {
			case 0, 1, 2:
				op.K = "trylock"
			case 3, 4:
				if nf == 0 {
					op.K = "lock"
				} else {
					op.K = "lockctx"
					op.E = -1
				}
			default:
				op.K = "lockctx"
				op.E = cancelSpec(r, lease)
				if op.E < 0 && r.Chance(1, 4) {
					op.V = "cancel_after"
				}
			}
			task.Ops = append(task.Ops, op)
			if r.Chance(1, 6) {
				task.Ops = append(task.Ops, sim.Op{K: "sleep", D: int64(sim.Pick(r, time.Microsecond, time.Millisecond, lease/2))})
			}
		}
		c.Tasks = append(c.Tasks, task)
	}
	for i := 0; i < nf; i++ {
		c.Faults = append(c.Faults, sim.Fault{Seam: "acq", Kind: sim.Pick(r, "req_lost", "reply_lost"), Ord: int64(1 + r.Intn(4*nt))})
	}
	if r.Chance(1, 6) {
		// one of two providers is shut down at some moment, typically while one of its
		// Lockers holds the lock for a good part of a lease: the holder keeps holding
		// until it unlocks, whatever Shutdown does to waiters and later attempts
		c.Knobs["providers"] = 2
		for ti := range c.Tasks {
			for oi := range c.Tasks[ti].Ops {
				if c.Tasks[ti].Ops[oi].K == "lock" {
					// Lock panics once its provider is closed (documented); use the ctx form
					c.Tasks[ti].Ops[oi].K = "lockctx"
					c.Tasks[ti].Ops[oi].E = -1
				}
			}
		}
		p := r.Intn(2)
		// a long critical section on a Locker of that provider - or of the other one: what a
		// provider does to its own attempts when it is shut down must not touch a holder elsewhere
		hp := p
		if r.Chance(1, 2) {
			hp = 1 - p
			// and answers that take a while, so that attempts are in flight when Shutdown comes
			c.Knobs["acq_reply_latency_ns"] = int64(sim.Pick(r, lease/100, lease/20))
		}
		for ti := range c.Tasks {
			if int(c.Knobs["locker_"+c.Tasks[ti].Name])%2 == hp {
				oi := r.Intn(len(c.Tasks[ti].Ops))
				if c.Tasks[ti].Ops[oi].K != "sleep" {
					c.Tasks[ti].Ops[oi].D = int64(lease*3/4) + r.I64n(int64(lease))
				}
				break
			}
		}
		c.Tasks = append(c.Tasks, sim.Task{Name: "tS", Ops: []sim.Op{
			{K: "sleep", D: r.I64n(int64(lease))},
			{K: "shutdown", N: int64(p)},
		}})
		c.Knobs["locker_tS"] = 0
	}
}

func genC04(r *sim.Rng, c *sim.Case, tier string) {
	lease := sim.Pick(r, 10*time.Second, 10*time.Second, time.Second, 200*time.Millisecond)
	c.Knobs["lease_ns"] = int64(lease)
	c.Sched = schedFor(r, lease)
	c.Mode = "rand"
	np := 1 + r.Intn(2)
	nl := 1 + r.Intn(4)
	if nl < np {
		nl = np
	}
	nt := 2 + r.Intn(4)
	c.Knobs["providers"] = int64(np)
	c.Knobs["lockers"] = int64(nl)
	withShutdown := r.Chance(1, 3)
	if withShutdown {
		c.Mode = "shutdown"
	}
	for t := 0; t < nt; t++ {
		task := sim.Task{Name: fmt.Sprintf("t%d", t)}
		c.Knobs["locker_"+task.Name] = int64(r.Intn(nl))
		n := 1 + r.Intn(4)
		for i := 0; i < n; i++ {
			op := sim.Op{N: int64(r.Intn(3)), D: csSleep(r, lease)}
			switch r.Intn(10) {
			case 0, 1:
				op.K = "trylock"
			case 2, 3, 4:
				if withShutdown {
					op.K = "lockctx"
					op.E = -1
				} else {
					op.K = "lock"
				}
			default:
				op.K = "lockctx"
				op.E = cancelSpec(r, lease)
			}
			task.Ops = append(task.Ops, op)
			if r.Chance(1, 6) {
				task.Ops = append(task.Ops, sim.Op{K: "sleep", D: int64(sim.Pick(r, time.Microsecond, time.Millisecond, lease/2))})
			}
		}
		c.Tasks = append(c.Tasks, task)
	}
	if withShutdown {
		// one or all providers are shut down by some task at some position
		for p := 0; p < np; p++ {
			if p > 0 && r.Chance(1, 2) {
				continue
			}
			ti := r.Intn(nt)
			pos := r.Intn(len(c.Tasks[ti].Ops) + 1)
			ops := append([]sim.Op{}, c.Tasks[ti].Ops[:pos]...)
			ops = append(ops, sim.Op{K: "shutdown", N: int64(p)})
			ops = append(ops, c.Tasks[ti].Ops[pos:]...)
			c.Tasks[ti].Ops = ops
		}
	}
}

func genC05(r *sim.Rng, c *sim.Case, tier string, idx int) {
	lease := sim.Pick(r, 50*time.Millisecond, 200*time.Millisecond, time.Second, 10*time.Second)
	c.Knobs["lease_ns"] = int64(lease)
	c.Sched = schedFor(r, lease)
	c.Mode = sim.Pick(r, "s1", "s1", "s2", "s3")
	c.Knobs["providers"] = 2
	switch c.Mode {
	case "s1":
		nc := 1 + r.Intn(2)
		c.Knobs["lockers"] = int64(1 + nc)
		k := 2 + r.Intn(39)
		if r.Chance(1, 2) {
			k = 2 + r.Intn(6)
		}
		hold := time.Duration(k)*lease + time.Duration(r.I64n(int64(lease)))
		holder := sim.Op{K: "lockctx", E: -1, D: int64(hold)}
		if r.Chance(1, 3) {
			holder.V = "cancel_after" // the acquisition context ends while the lock is held
		}
		if r.Chance(1, 3) {
			// a slow but healthy storage: every renewal call takes a while
			c.Knobs["cas_latency_ns"] = int64(sim.Pick(r, lease/50, lease/20, lease/10))
		}
		c.Tasks = append(c.Tasks, sim.Task{Name: "t0", Ops: []sim.Op{holder}})
		c.Knobs["locker_t0"] = 0
		for i := 1; i <= nc; i++ {
			task := sim.Task{Name: fmt.Sprintf("t%d", i)}
			c.Knobs["locker_"+task.Name] = int64(i)
			// let the holder win first
			task.Ops = append(task.Ops, sim.Op{K: "sleep", D: int64(lease / 8)})
			n := 2 + r.Intn(6)
			for j := 0; j < n; j++ {
				if r.Chance(1, 2) {
					task.Ops = append(task.Ops, sim.Op{K: "trylock", N: 1})
				} else {
					task.Ops = append(task.Ops, sim.Op{K: "lockctx", N: 1, E: 1000 + int64(lease/4) + r.I64n(int64(2*lease))})
				}
				task.Ops = append(task.Ops, sim.Op{K: "sleep", D: r.I64n(int64(3 * lease))})
			}
			c.Tasks = append(c.Tasks, task)
		}
		if r.Chance(1, 4) {
			// a pattern of lost renewals over the first dozen attempts, never more than three in a
			// row (attempts come at T/2, 5T/8, 6T/8, 7T/8 of a lease: three misses are survivable,
			// and a success starts the count afresh)
			run := 0
			for o := int64(1); o <= 12; o++ {
				if run < 3 && r.Chance(9, 20) {
					c.Faults = append(c.Faults, sim.Fault{Seam: "renew", Kind: "req_lost", Ord: o})
					run++
				} else {
					run = 0
				}
			}
			c.Knobs["streak_across_tenures"] = 1 // (keeps the second lock out: its renewals would shift the ordinals)
			// three misses in a row fit into half a lease only when the storage answers at once
			delete(c.Knobs, "cas_latency_ns")
			if hold < 8*lease {
				hold = 8*lease + time.Duration(r.I64n(int64(lease)))
				c.Tasks[0].Ops[0].D = int64(hold)
			}
		} else if r.Chance(2, 3) {
			ord := int64(1 + r.Intn(8))
			if r.Chance(1, 2) {
				ord = int64(1 + idx%8)
			}
			c.Faults = append(c.Faults, sim.Fault{Seam: "renew", Kind: "req_lost", Ord: ord})
		}
		if r.Chance(1, 6) {
			// a neighbour: the same process also holds a second lock through the other
			// provider, whose node loses the storage for longer than a lease (that lock is
			// lost, its renewal gives up) and which is unlocked some time later. Nothing of
			// this may touch the lease of "L", whose storage answers all the time
			c.Knobs["noise_lock"] = int64(1 + r.Intn(6))
			c.Knobs["noise_tasks"] = 1
			c.Knobs["noise_ops"] = 1
			c.Knobs["noise_node"] = 1
			c.Knobs["noise_hold_ns"] = int64(2*lease + lease/2 + time.Duration(r.I64n(int64(2*lease))))
			c.Tasks = append(c.Tasks, sim.Task{Name: "tO", Ops: []sim.Op{
				{K: "sleep", D: int64(lease/4) + r.I64n(int64(lease))},
				{K: "outage", N: 1, D: int64(lease+lease/4) + r.I64n(int64(lease))},
			}})
			c.Knobs["locker_tO"] = 0
			// the contenders of "L" use the holder's node, which stays connected
			for i := 1; i <= nc; i++ {
				c.Knobs[fmt.Sprintf("locker_t%d", i)] = int64(2 * i)
			}
			c.Knobs["lockers"] = int64(2*nc + 2)
			if hold < 6*lease {
				hold += 6 * lease
				c.Tasks[0].Ops[0].D = int64(hold)
			}
		}
		if r.Chance(1, 5) {
			// the holder's provider is shut down while the lock is held: the tenure goes on
			// until Unlock (contenders of that provider now fail, the others keep waiting)
			c.Tasks = append(c.Tasks, sim.Task{Name: "tS", Ops: []sim.Op{
				{K: "sleep", D: r.I64n(int64(hold))},
				{K: "shutdown", N: 0},
			}})
			c.Knobs["locker_tS"] = 0
		}
	case "s2":
		nc := 1 + r.Intn(2)
		c.Knobs["lockers"] = int64(1 + nc)
		if c.Knobs["lockers"] < 2 {
			c.Knobs["lockers"] = 2
		}
		// death at any phase of the renewal cycle
		hold := time.Duration(r.I64n(int64(3*lease) + int64(lease/4)))
		c.Tasks = append(c.Tasks, sim.Task{Name: "t0", Ops: []sim.Op{{K: "lockctx", E: -1, D: int64(hold), F: true}}})
		c.Knobs["locker_t0"] = 0 // provider 0
		for i := 1; i <= nc; i++ {
			task := sim.Task{Name: fmt.Sprintf("t%d", i)}
			c.Knobs["locker_"+task.Name] = 1 // provider 1 (another node)
			if i == 2 {
				// a second Locker object of the live provider (locker 3 -> provider 1), or the same one
				c.Knobs["lockers"] = 4
				c.Knobs["locker_"+task.Name] = int64(sim.Pick(r, 3, 3, 1))
			}
			task.Ops = append(task.Ops, sim.Op{K: "sleep", D: int64(lease/16) + r.I64n(int64(lease))})
			if i == 1 && nc == 2 && r.Chance(1, 2) {
				// this contender gives up somewhere in the dead holder's final lease epoch;
				// the other one must still take over
				giveUp := int64(hold) + r.I64n(int64(lease)+int64(lease)/2)
				task.Ops = append(task.Ops, sim.Op{K: "lockctx", E: 1000 + giveUp, N: 1})
			} else if nc == 1 && r.Chance(1, 3) {
				// the only contender limits its attempt by a deadline far beyond the dead holder's
				// lease: it must take over when the record expires, long before the deadline
				c.Knobs["deadline_ctx"] = 1
				task.Ops = append(task.Ops, sim.Op{K: "lockctx", E: 1000 + int64(hold) + int64(4*lease), N: 1, D: int64(sim.Pick(r, 0, lease/2))})
			} else {
				task.Ops = append(task.Ops, sim.Op{K: "lockctx", E: -1, N: 1, D: int64(sim.Pick(r, 0, lease/2))})
			}
			c.Tasks = append(c.Tasks, task)
		}
	case "s3":
		c.Knobs["lockers"] = 2
		k := 1 + r.Intn(4)
		// land Unlock within a few steps of the renewal timer
		hold := time.Duration(k)*lease/2 + time.Duration(r.I64n(61)-30)*time.Duration(c.Sched.MaxJitter)/16
		if r.Chance(1, 4) {
			hold = time.Duration(k)*lease/2 + time.Duration(r.I64n(2000)-1000)*time.Duration(c.Sched.MaxJitter)
		}
		if hold < 0 {
			hold = lease / 2
		}
		t0 := sim.Task{Name: "t0"}
		t0.Ops = append(t0.Ops, sim.Op{K: "lockctx", E: -1, D: int64(hold)})
		if r.Chance(1, 2) {
			// immediate re-acquire by the same Locker
			t0.Ops = append(t0.Ops, sim.Op{K: "lockctx", E: -1, D: int64(sim.Pick(r, lease/4, lease/2, lease+lease/3, 2*lease+lease/2))})
		}
		if r.Chance(1, 4) {
			// a renewal call of the first tenure hangs in the storage and fails late, when
			// the same Locker is long into its next tenure (aimed at that tenure's first
			// renewal being in flight): whatever the stale failure arms or cancels, the
			// second tenure's lease must be kept
			L := sim.Pick(r, lease/50, lease/20, lease/10)
			c.Knobs["cas_latency_ns"] = int64(L)
			h := lease/2 + time.Duration(1+r.Intn(8))*L/8 + L
			t0.Ops = []sim.Op{
				{K: "lockctx", E: -1, D: int64(h)},
				{K: "lockctx", E: -1, D: int64(2*lease + lease/2 + time.Duration(r.I64n(int64(lease))))},
			}
			stall := h - L + time.Duration(r.I64n(int64(L)))
			if r.Chance(1, 3) {
				stall = h - 2*L + time.Duration(r.I64n(int64(4*L)))
			}
			c.Faults = append(c.Faults, sim.Fault{Seam: "renew", Kind: "stall_lost", Ord: 1, D: int64(stall)})
			if r.Chance(2, 3) {
				c.Knobs["bg_timers"] = int64(2 + r.Intn(2))
				c.Knobs["bg_period_ns"] = int64(sim.Pick(r, lease/16, lease/7, lease/3))
			}
		}
		if len(c.Faults) == 0 && r.Chance(1, 4) {
			// a tenure that ends in the middle of a streak of m failed renewals, followed at once
			// by a tenure of the same Locker whose first n renewals fail too: whatever the first
			// tenure's trouble left behind, n <= 3 transient failures are survivable (attempts at
			// T/2, 5T/8, 6T/8, 7T/8)
			m, n := 1+r.Intn(3), 1+r.Intn(3)
			h1 := 3*lease/2 + time.Duration(m-1)*lease/8 + lease/16
			t0.Ops = []sim.Op{
				{K: "lockctx", E: -1, D: int64(h1)},
				{K: "lockctx", E: -1, D: int64(2*lease + lease/2 + time.Duration(r.I64n(int64(lease))))},
			}
			for o := 3; o < 3+m+n; o++ {
				c.Faults = append(c.Faults, sim.Fault{Seam: "renew", Kind: "req_lost", Ord: int64(o)})
			}
			c.Knobs["streak_across_tenures"] = int64(10*m + n)
		}
		c.Tasks = append(c.Tasks, t0)
		c.Knobs["locker_t0"] = 0
		if len(c.Faults) == 0 && r.Chance(1, 4) {
			// a short outage of the holder's node around the Unlock instant: the renewal in
			// flight fails transiently AND the Delete of Unlock fails; the storage is back
			// before any retry. The finished tenure's renewal must still die out, and its
			// orphaned record must go with its lease
			d1 := time.Duration(r.I64n(int64(lease / 16)))
			d2 := lease/32 + time.Duration(r.I64n(int64(lease/8-lease/32)))
			first := time.Duration(t0.Ops[0].D)
			if first > d1 {
				c.Tasks = append(c.Tasks, sim.Task{Name: "tO", Ops: []sim.Op{
					{K: "sleep", D: int64(first - d1)},
					{K: "outage", N: 0, D: int64(d1 + d2)},
				}})
				c.Knobs["locker_tO"] = 0
			}
		}
		if r.Chance(1, 2) {
			t1 := sim.Task{Name: "t1"}
			t1.Ops = append(t1.Ops, sim.Op{K: "sleep", D: int64(lease / 8)})
			t1.Ops = append(t1.Ops, sim.Op{K: "lockctx", E: -1, D: int64(sim.Pick(r, lease/4, lease))})
			c.Tasks = append(c.Tasks, t1)
			c.Knobs["locker_t1"] = 1
		}
	}
}
