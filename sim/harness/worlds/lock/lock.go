// Package lock is the simulation world for kvs/distlock (C01, C04, C05).
package lock

import (
	"context"
	stderrors "errors"
	"fmt"
	"sort"
	"strings"
	"time"

	"verifharness/sim"
	"verifharness/worlds/backend"

	"github.com/acquirecloud/golibs/container/iterable"
	"github.com/acquirecloud/golibs/errors"
	"github.com/acquirecloud/golibs/kvs"
	dist "github.com/acquirecloud/golibs/kvs/distlock"
	gsync "github.com/acquirecloud/golibs/sync"
	"github.com/acquirecloud/golibs/timeout"
	"github.com/acquirecloud/golibs/zsimrt"
	"google.golang.org/grpc/codes"
	"google.golang.org/grpc/status"
)

const lockName = "L"
const lockPath = "locks/"
const lockKey = lockPath + lockName

// names of the second lock ("noise_lock" knob), all related to "L"
var noiseNames = []string{"L2", "l", "L/L", "", "LL", "K"}

var errInjected = stderrors.New("injected: storage unavailable")

// injErrs: what an unavailable storage answers with (knob err_kind). A remote storage
// reports failures as gRPC status errors; the codes below have no counterpart among the
// library's error kinds (errors/grpc.go maps them to ErrInternal), Unknown is what a
// plain error looks like to errors.Is.
var injErrs = []error{
	errInjected,
	status.Error(codes.Unavailable, "injected: storage unavailable"),
	status.Error(codes.Internal, "injected: storage unavailable"),
	status.Error(codes.Aborted, "injected: storage unavailable"),
	status.Error(codes.ResourceExhausted, "injected: storage unavailable"),
	status.Error(codes.Unknown, "injected: storage unavailable"),
}

// bctx: the Storage contract does not oblige an implementation to look at the context of
// its short calls (the in-memory one ignores it in Put, CasByVersion and Delete); with knob
// ctx_blind the storage of this run never does, except in WaitForVersionChange.
func (s *simStore) bctx(ctx context.Context) context.Context {
	if s.w.c.Knob("ctx_blind", 0) == 1 {
		return context.Background()
	}
	return ctx
}

func (s *simStore) inj() error { return injErrs[int(s.w.c.Knob("err_kind", 0))%len(injErrs)] }

type provider struct {
	idx          int
	p            dist.LockProvider
	st           *simStore
	shutInvoked  bool
	shutReturned bool
}

type tenure struct {
	task                 string
	version              string
	expires              time.Time
	active               bool // task is inside the critical section
	hung                 bool // a renewal call of this tenure is hanging in the storage (fault) for >= lease/4
	lostStreak           int  // consecutive renewal requests of this tenure that the storage did not answer
	unlocked             bool // Unlock has returned
	unlockAt             time.Time
	afterUnlockCalls     int
	lastRenewAfterUnlock time.Time
	id                   int
}

type taskState struct {
	deadCtxSteps  int // own steps taken when the context of the current attempt was first seen done (-1: live)
	name          string
	locker        int
	prov          *provider
	acquiring     bool
	ctxLive       func() bool
	inside        bool
	unlocking     bool
	done          bool
	dead          bool
	blockedSince  time.Time
	afterShutdown bool // the current attempt was invoked after Shutdown of its provider had returned
}

type world struct {
	c                                  *sim.Case
	e                                  *sim.Env
	mode                               string
	lease                              time.Duration
	be                                 *backend.Backend
	provs                              []*provider
	lockers                            []gsync.Locker
	lockerProv                         []int
	tasks                              []*taskState
	byName                             map[string]*taskState
	nDone                              int
	inside                             map[string]bool
	voided                             bool
	gateTen                            *tenure
	noiseTasks, noiseDone, noiseInside int
	outageNodes                        map[int]bool // nodes that lose the storage for a while (op "outage")
	deadNode                           map[int]bool
	hangFaults                         bool // a storage call may hang on a timer worker: leases of other locks are not judged
	ordAcq                             int64
	ordRenew                           int64
	faults                             map[string]sim.Fault // key seam:ord
	tenures                            []*tenure
	byVer                              map[string]*tenure
	curTen                             map[string]*tenure // by task
	phase                              int
	sumSleep                           time.Duration
	// C05
	holderDeadAt     time.Time
	deadTask         string
	deadLastExpiry   time.Time
	contenderEntered bool
	partitioned      map[int]bool
	entries          int
	// cancellations that are tied to the next Unlock of anybody (faults placed
	// right at the hand-off)
	beforeUnlock []func()
	afterUnlock  []func()
}

func New(c *sim.Case) (sim.World, error) {
	return &world{c: c, mode: c.Mode, inside: map[string]bool{}, byName: map[string]*taskState{}, faults: map[string]sim.Fault{},
		byVer: map[string]*tenure{}, curTen: map[string]*tenure{}, partitioned: map[int]bool{}, outageNodes: map[int]bool{}, deadNode: map[int]bool{}}, nil
}

func (w *world) prop() string { return w.c.Prop }

// ---------------------------------------------------------------------------
// storage seam

type simStore struct {
	w    *world
	node int
	base kvs.Storage
}

func (s *simStore) fault(seam string, ord int64) (sim.Fault, bool) {
	f, ok := s.w.faults[fmt.Sprintf("%s:%d", seam, ord)]
	return f, ok
}

// gate implements the request half of a call: yield, partition, planned fault.
// It returns (execute, err-after, fail-before).
func (s *simStore) gate(ctx context.Context, kind string, renew bool) (execute bool, replyLost bool, failErr error) {
	w := s.w
	ten := w.gateTen
	w.gateTen = nil
	var seam string
	var ord int64
	if renew {
		w.ordRenew++
		seam, ord = "renew", w.ordRenew
	} else {
		w.ordAcq++
		seam, ord = "acq", w.ordAcq
	}
	zsimrt.Yield("st:req:" + kind)
	if ctx != nil && ctx.Err() != nil && kind != "wait" && w.be.Kind == backend.InMem && w.c.Knob("ctx_blind", 0) == 0 {
		// like a networked store, the seam refuses a request whose context is already
		// done (WaitForVersionChange reports that itself). The in-memory backend
		// ignores contexts; the Redis client does this check on its own, so there
		// the call goes through and the real client code decides
		w.e.Probe("storage_call_with_done_context")
		return false, false, ctx.Err()
	}
	if renew {
		if d := time.Duration(w.c.Knob("cas_latency_ns", 0)); d > 0 {
			// a slow but healthy storage: every renewal takes this long
			w.e.FaultFired("renew_slow")
			zsimrt.Sleep("st:latency", d)
		}
	}
	if w.partitioned[s.node] {
		if renew && ten != nil {
			ten.lostStreak++
		}
		w.e.FaultFired("partition_request_lost")
		w.e.Logf("st n%d %s#%d partitioned", s.node, kind, ord)
		return false, false, s.inj()
	}
	if f, ok := s.fault(seam, ord); ok {
		switch f.Kind {
		case "req_lost":
			if renew && ten != nil {
				ten.lostStreak++
			}
			w.e.FaultFired(seam + "_request_lost")
			w.e.Logf("st n%d %s#%d request lost", s.node, kind, ord)
			return false, false, s.inj()
		case "reply_lost":
			w.e.FaultFired(seam + "_reply_lost")
			w.e.Logf("st n%d %s#%d reply lost", s.node, kind, ord)
			return true, true, nil
		case "stall":
			w.e.FaultFired(seam + "_stall")
			zsimrt.Sleep("st:stall", time.Duration(f.D))
		case "stall_lost":
			// the request hangs for a while and is then lost: a transient error that arrives late
			w.e.FaultFired(seam + "_stall_then_lost")
			if ten != nil && time.Duration(f.D) >= w.lease/4 {
				ten.hung = true // not judged while its renewal hangs
			}
			zsimrt.Sleep("st:stall", time.Duration(f.D))
			if ten != nil {
				ten.hung = false
			}
			w.e.Logf("st n%d %s#%d request lost after a stall of %v", s.node, kind, ord, time.Duration(f.D))
			if ten != nil && ten.active && time.Duration(f.D) >= w.lease/4 && !w.voided {
				// the renewal of a tenure that is still being held hung for a good part of
				// the lease: this storage did not answer, the premise of C05 (and the
				// renewed-in-time premise of C01) is gone for this run
				w.voided = true
				w.e.Void("a renewal call hung for a quarter of the lease or more while the lock was held: storage did not answer, lease keeping not judged")
			}
			return false, false, s.inj()
		}
	}
	return true, false, nil
}

func (s *simStore) Create(ctx context.Context, r kvs.Record) (string, error) {
	exec, lost, ferr := s.gate(ctx, "create", false)
	if !exec {
		return "", s.wrapErr(ferr)
	}
	who := zsimrt.CurrentName()
	ver, err := s.base.Create(s.bctx(ctx), r)
	s.w.e.Logf("st n%d create by %s -> %s", s.node, who, errStr(err))
	if err == nil && r.Key == lockKey {
		s.w.onCreate(who, ver, r, lost)
	}
	zsimrt.Yield("st:resp:create")
	s.replyLatency()
	if lost {
		return "", s.wrapErr(s.inj())
	}
	return ver, s.wrapErr(err)
}

// wrapErr: a Storage is free to annotate its errors (the errors package asks
// callers to compare with errors.Is); with knob wrap_errors every error that
// leaves the seam is wrapped once.
func (s *simStore) wrapErr(err error) error {
	if err == nil || s.w.c.Knob("wrap_errors", 0) == 0 {
		return err
	}
	return fmt.Errorf("remote storage (node %d): %w", s.node, err)
}

// replyLatency: a storage whose answers to acquisition-path calls take a while
// (knob acq_reply_latency_ns): the world moves on between the moment the storage
// evaluated a request and the moment the caller sees the answer.
func (s *simStore) replyLatency() {
	if d := time.Duration(s.w.c.Knob("acq_reply_latency_ns", 0)); d > 0 {
		s.w.e.FaultFired("acq_reply_slow")
		zsimrt.Sleep("st:reply-latency", d)
	}
}

func (s *simStore) Get(ctx context.Context, key string) (kvs.Record, error) {
	exec, lost, ferr := s.gate(ctx, "get", false)
	if !exec {
		return kvs.Record{}, s.wrapErr(ferr)
	}
	r, err := s.base.Get(s.bctx(ctx), key)
	zsimrt.Yield("st:resp:get")
	if lost {
		return kvs.Record{}, s.wrapErr(s.inj())
	}
	return r, s.wrapErr(err)
}

func (s *simStore) GetMany(ctx context.Context, keys ...string) ([]*kvs.Record, error) {
	return s.base.GetMany(ctx, keys...)
}

func (s *simStore) Put(ctx context.Context, r kvs.Record) (kvs.Record, error) {
	openAtInvoke := s.w.openTenures()
	exec, lost, ferr := s.gate(ctx, "put", false)
	if !exec {
		return kvs.Record{}, s.wrapErr(ferr)
	}
	rr, err := s.base.Put(s.bctx(ctx), r)
	if err == nil && r.Key == lockKey {
		s.w.onForeignWrite("Put", zsimrt.CurrentName(), openAtInvoke)
	}
	zsimrt.Yield("st:resp:put")
	if lost {
		return kvs.Record{}, s.wrapErr(s.inj())
	}
	return rr, s.wrapErr(err)
}

func (s *simStore) PutMany(ctx context.Context, rs []kvs.Record) error {
	return s.base.PutMany(ctx, rs)
}

func (s *simStore) CasByVersion(ctx context.Context, r kvs.Record) (kvs.Record, error) {
	unlockedAtInvoke := s.w.onRenewAttempt(r.Version)
	openAtInvoke := s.w.openTenures()
	s.w.gateTen = s.w.byVer[r.Version]
	exec, lost, ferr := s.gate(ctx, "cas", true)
	if !exec {
		return kvs.Record{}, s.wrapErr(ferr)
	}
	rr, err := s.base.CasByVersion(s.bctx(ctx), r)
	s.w.e.Logf("st n%d cas -> %s", s.node, errStr(err))
	if r.Key == lockKey {
		s.w.onCas(r, rr, err, unlockedAtInvoke)
		if err == nil {
			s.w.onForeignWrite("CasByVersion", zsimrt.CurrentName(), openAtInvoke)
		}
	}
	zsimrt.Yield("st:resp:cas")
	if lost {
		return kvs.Record{}, s.wrapErr(s.inj())
	}
	return rr, s.wrapErr(err)
}

func (s *simStore) Delete(ctx context.Context, key string) error {
	exec, lost, ferr := s.gate(ctx, "delete", false)
	if !exec {
		return s.wrapErr(ferr)
	}
	who := zsimrt.CurrentName()
	err := s.base.Delete(s.bctx(ctx), key)
	s.w.e.Logf("st n%d delete by %s -> %s", s.node, who, errStr(err))
	zsimrt.Yield("st:resp:delete")
	s.replyLatency()
	if lost {
		return s.wrapErr(s.inj())
	}
	return s.wrapErr(err)
}

func (s *simStore) WaitForVersionChange(ctx context.Context, key, ver string) error {
	exec, lost, ferr := s.gate(ctx, "wait", false)
	if !exec {
		return s.wrapErr(ferr)
	}
	s.w.e.Probe("storage_wait")
	err := s.base.WaitForVersionChange(ctx, key, ver)
	zsimrt.Yield("st:resp:wait")
	if lost {
		return s.wrapErr(s.inj())
	}
	return s.wrapErr(err)
}

func (s *simStore) ListKeys(ctx context.Context, pattern string) (iterable.Iterator[string], error) {
	return s.base.ListKeys(ctx, pattern)
}

func errStr(err error) string {
	switch {
	case err == nil:
		return "ok"
	case errors.Is(err, errors.ErrExist):
		return "ErrExist"
	case errors.Is(err, errors.ErrNotExist):
		return "ErrNotExist"
	case errors.Is(err, errors.ErrConflict):
		return "ErrConflict"
	case errors.Is(err, errors.ErrClosed):
		return "ErrClosed"
	case stderrors.Is(err, context.Canceled):
		return "Canceled"
	case stderrors.Is(err, context.DeadlineExceeded):
		return "DeadlineExceeded"
	case isInjected(err):
		return "injected"
	}
	return "error(" + err.Error() + ")"
}

// causeCtx reports the canceller's own error once its parent is done.
type causeCtx struct {
	context.Context
	cause error
}

func (c causeCtx) Err() error {
	if c.Context.Err() != nil {
		return c.cause
	}
	return nil
}

var ctxCauses = []error{
	fmt.Errorf("superseded by a newer request: %w", errors.ErrExist),
	fmt.Errorf("the job is gone: %w", errors.ErrNotExist),
	fmt.Errorf("lost the election: %w", errors.ErrConflict),
	stderrors.New("caller gave up"),
}

func isInjected(err error) bool {
	for _, ie := range injErrs {
		if stderrors.Is(err, ie) {
			return true
		}
	}
	return false
}

// ---------------------------------------------------------------------------
// observations at the seam

func (w *world) onCreate(who, ver string, r kvs.Record, replyLost bool) {
	t := &tenure{task: who, version: ver, id: len(w.tenures)}
	if r.ExpiresAt != nil {
		t.expires = *r.ExpiresAt
	}
	w.tenures = append(w.tenures, t)
	w.byVer[ver] = t
	if !replyLost {
		w.curTen[who] = t
	} else {
		w.e.Probe("reply_lost_create_left_orphan_record")
	}
}

// onForeignWrite: a successful write of the lock record that is not an
// acquisition (Create by a task).
func (w *world) openTenures() int {
	open := 0
	for _, t := range w.tenures {
		if !t.unlocked && w.curTen[t.task] == t {
			open++
		}
	}
	return open
}

// onForeignWrite: a successful write of the lock record that is not an
// acquisition. It is judged by the moment the call was issued: a call that
// was already in flight when the last Unlock returned may legitimately have
// taken effect before the Delete.
func (w *world) onForeignWrite(kind, who string, openAtInvoke int) {
	if w.prop() != "C05" {
		return
	}
	if _, isTask := w.byName[who]; isTask {
		return
	}
	if openAtInvoke == 0 {
		w.e.Violate("C05", "write_after_unlock", "a %s of the lock record issued by %s while no tenure was open (every holder's Unlock had returned) succeeded: renewal of a finished tenure changed the storage", kind, who)
	}
}

func (w *world) onRenewAttempt(ver string) (unlockedAtInvoke bool) {
	t := w.byVer[ver]
	if t == nil {
		return false
	}
	unlockedAtInvoke = t.unlocked
	if t.unlocked {
		t.afterUnlockCalls++
		t.lastRenewAfterUnlock = time.Now()
		w.e.Probe("renewal_call_after_unlock")
		if w.prop() == "C05" && t.afterUnlockCalls > 1 {
			w.e.Violate("C05", "renewal_after_unlock_repeats", "tenure #%d of %s: %d renewal calls reached the storage after Unlock returned (at most one armed attempt is allowed)", t.id, t.task, t.afterUnlockCalls)
		}
	}
	return
}

func (w *world) onCas(req kvs.Record, res kvs.Record, err error, unlockedAtInvoke bool) {
	t := w.byVer[req.Version]
	if t == nil {
		return
	}
	if err == nil {
		if unlockedAtInvoke && w.prop() == "C05" {
			w.e.Violate("C05", "renewal_after_unlock_succeeded", "a renewal of tenure #%d of %s issued after its Unlock had returned succeeded: it changed the record", t.id, t.task)
		}
		t.version = res.Version
		t.lostStreak = 0
		if req.ExpiresAt != nil {
			t.expires = *req.ExpiresAt
		}
		w.byVer[res.Version] = t
		w.e.Probe("renewal_ok")
	} else {
		w.e.Probe("renewal_failed_" + errStr(err))
	}
}

// ---------------------------------------------------------------------------

func (w *world) Setup(e *sim.Env) {
	w.e = e
	e.OnPanic = func(name string, v any, stack string) {
		e.Violate(w.prop(), "panic", "panic in %s: %v", name, v)
	}
	w.lease = time.Duration(w.c.Knob("lease_ns", int64(10*time.Second)))
	dist.VerifSetLeaseTimeout(w.lease)
	timeout.VerifReset(0, 0)
	if n := int(w.c.Knob("bg_timers", 0)); n > 0 {
		// other users of the process-wide timeout package: n chains of callbacks that
		// re-arm themselves, all due at the same instants, so that the worker pool has
		// more than one worker and a hanging renewal call does not hold up other timers
		period := time.Duration(w.c.Knob("bg_period_ns", int64(w.lease/16)))
		work := time.Duration(w.c.Knob("bg_work_ns", 0))
		// (armed by a task of their own: library code is never entered from the scheduler goroutine)
		e.Spawn("zbg", func() {
			for i := 0; i < n; i++ {
				var tick func()
				tick = func() {
					if w.nDone >= len(w.c.Tasks) {
						return
					}
					w.e.Probe("background_timer_fired")
					if work > 0 {
						zsimrt.Sleep("bg:work", work)
					}
					timeout.Call(tick, period)
				}
				timeout.Call(tick, period)
			}
		}, nil)
	}
	be, err := backend.New(e, backend.Kind(w.c.Knob("backend", 0)), w.c)
	if err != nil {
		e.HarnessError("backend: " + err.Error())
		return
	}
	w.be = be
	for _, f := range w.c.Faults {
		w.faults[fmt.Sprintf("%s:%d", f.Seam, f.Ord)] = f
		if f.Kind == "stall" || f.Kind == "stall_lost" {
			w.hangFaults = true
		}
	}
	np := int(w.c.Knob("providers", 1))
	nl := int(w.c.Knob("lockers", 2))
	for i := 0; i < np; i++ {
		st := &simStore{w: w, node: i, base: be.Client(i)}
		p := &provider{idx: i, st: st}
		p.p = dist.NewKvsLockProvider(st, lockPath)
		w.provs = append(w.provs, p)
	}
	if x := w.c.Knob("other_lockers", 0); x > 0 {
		// some provider has been asked for lockers of other, oddly shaped names before (they
		// are never used): what a provider does for one name must not reach another
		odd := []string{"/x", "/" + lockName, "//", "x/", "", lockName + "/", " " + lockName}
		for k := int64(0); k < 3; k++ {
			pi := int((x + k) % int64(np))
			_ = w.provs[pi].p.NewLocker(odd[int(x+k*3)%len(odd)])
		}
		e.Probe("provider_asked_for_other_names_first")
	}
	for i := 0; i < nl; i++ {
		pi := i % np
		w.lockers = append(w.lockers, w.provs[pi].p.NewLocker(lockName))
		w.lockerProv = append(w.lockerProv, pi)
	}
	if nn := int(w.c.Knob("noise_lock", 0)); nn > 0 {
		// a second lock of the same providers on the same storage, under a name that is
		// related to the first one (extension, other letter case, nested path): its
		// users come and go on their own; whatever they do must not reach lock "L",
		// and they exclude each other as well
		name2 := noiseNames[(nn-1)%len(noiseNames)]
		nTasks := int(w.c.Knob("noise_tasks", 2))
		nOps := int(w.c.Knob("noise_ops", 3))
		hold := time.Duration(w.c.Knob("noise_hold_ns", int64(w.lease/10)))
		for i := 0; i < nTasks; i++ {
			pi := i % np
			if nd := w.c.Knob("noise_node", -1); nd >= 0 {
				pi = int(nd) % np
			}
			lk := w.provs[pi].p.NewLocker(name2)
			name := fmt.Sprintf("zn%d", i)
			w.noiseTasks++
			e.Spawn(name, func() {
				defer func() { w.noiseDone++ }()
				for k := 0; k < nOps; k++ {
					zsimrt.Yield("noise:op")
					ok := false
					if k%2 == 1 {
						ok = lk.TryLock(context.Background())
					} else {
						ctx, cancel := context.WithCancel(context.Background())
						stop := false
						e.Spawn(fmt.Sprintf("%s.c%d", name, k), func() {
							zsimrt.Sleep("noise:giveup", 3*w.lease)
							if !stop {
								cancel()
							}
						}, nil)
						ok = lk.LockWithCtx(ctx) == nil
						stop = true
						cancel()
					}
					if !ok {
						e.Probe("noise_lock_not_acquired")
						continue
					}
					e.Probe("noise_lock_acquired")
					w.noiseInside++
					if w.noiseInside > 1 && !w.voided && !w.hangFaults && len(w.outageNodes) == 0 {
						e.Violate(w.prop(), "overlap_second_lock", "two callers hold the second lock %q of the same providers at the same time", name2)
					}
					zsimrt.Sleep("noise:cs", hold)
					w.noiseInside--
					lk.Unlock()
				}
			}, func(v any, stack string) {
				e.Violate(w.prop(), "panic", "panic in %s (user of the second lock %q): %v", name, name2, v)
			})
		}
	}
	for ti := range w.c.Tasks {
		t := w.c.Tasks[ti]
		li := int(w.c.Knob("locker_"+t.Name, int64(ti%nl)))
		if li >= nl {
			li = li % nl
		}
		ts := &taskState{name: t.Name, locker: li, prov: w.provs[w.lockerProv[li]]}
		w.tasks = append(w.tasks, ts)
		w.byName[t.Name] = ts
		for _, op := range t.Ops {
			w.sumSleep += time.Duration(op.D)
			if op.E >= 1000 {
				w.sumSleep += time.Duration(op.E - 1000)
			}
		}
		e.Spawn(t.Name, func() { w.runTask(ts, t) }, func(v any, stack string) {
			e.Violate(w.prop(), "panic", "panic in %s: %v", t.Name, v)
		})
	}
}

func (w *world) enter(ts *taskState) {
	e := w.e
	w.entries++
	e.Logf("enter %s", ts.name)
	if len(w.inside) > 0 && !w.voided {
		for k := range w.inside {
			if t := w.curTen[k]; t != nil && t.hung {
				w.voided = true
				e.Void("a renewal call of the holder has been hanging for a quarter of the lease or more: storage did not answer, exclusion not judged")
			}
		}
	}
	if len(w.inside) > 0 && !w.voided {
		var others []string
		for k := range w.inside {
			others = append(others, k)
		}
		sort.Strings(others)
		switch w.prop() {
		case "C01":
			e.Violate("C01", "overlap", "%s acquired the lock while %v still hold(s) it", ts.name, others)
		case "C05":
			e.Violate("C05", "contender_entered", "%s acquired the lock while %v still hold(s) it", ts.name, others)
		default:
			e.Violate(w.prop(), "overlap_seen", "%s acquired the lock while %v still hold(s) it", ts.name, others)
		}
	}
	if len(w.inside) > 0 && w.voided {
		e.Probe("overlap_after_lease_lapse_not_judged")
	}
	w.inside[ts.name] = true
	ts.inside = true
	if t := w.curTen[ts.name]; t != nil {
		t.active = true
	}
	e.Progress()
}

func (w *world) leave(ts *taskState) {
	w.e.Logf("leave %s", ts.name)
	delete(w.inside, ts.name)
	ts.inside = false
	if t := w.curTen[ts.name]; t != nil {
		t.active = false
	}
	w.e.Progress()
}

func (w *world) runTask(ts *taskState, t sim.Task) {
	e := w.e
	lk := w.lockers[ts.locker]
	for i, op := range t.Ops {
		zsimrt.Yield("task:op")
		switch op.K {
		case "lock", "trylock", "lockctx":
			w.acquire(ts, lk, op, i)
			if ts.dead {
				ts.done = true
				w.nDone++
				return
			}
		case "shutdown":
			p := w.provs[int(op.N)%len(w.provs)]
			if !p.shutInvoked {
				p.shutInvoked = true
				e.Logf("shutdown p%d by %s", p.idx, ts.name)
				p.p.Shutdown()
				p.shutReturned = true
				e.Probe("shutdown")
			}
		case "outage":
			// the storage is unreachable from one provider's node for a while, then it is back
			node := int(op.N) % len(w.provs)
			if w.partitioned[node] {
				break
			}
			w.partitioned[node] = true
			w.outageNodes[node] = true
			e.FaultFired("storage_outage_of_one_node")
			e.Logf("outage of node %d for %v", node, time.Duration(op.D))
			zsimrt.Sleep("task:outage", time.Duration(op.D))
			if !w.deadNode[node] {
				w.partitioned[node] = false
			}
			e.Logf("node %d reaches the storage again", node)
		case "sleep":
			zsimrt.Sleep("task:sleep", time.Duration(op.D))
		}
		e.OpsDone++
		e.Progress()
	}
	ts.done = true
	w.nDone++
}

func (w *world) acquire(ts *taskState, lk gsync.Locker, op sim.Op, i int) {
	e := w.e
	prov := ts.prov
	shutBefore := prov.shutReturned
	var ok bool
	var err error
	ctx := context.Background()
	var cancel context.CancelFunc
	ctxDoneBefore := false
	ts.acquiring = true
	ts.afterShutdown = shutBefore
	ts.blockedSince = time.Now()
	ts.ctxLive = func() bool { return true }
	switch op.K {
	case "lock":
		lk.Lock()
		ok = true
	case "trylock":
		ok = lk.TryLock(ctx)
		if !ok {
			e.Probe("trylock_false")
		}
	case "lockctx":
		ctx, cancel = context.WithCancel(ctx)
		c2 := ctx
		ts.ctxLive = func() bool { return c2.Err() == nil }
		switch {
		case op.E == 0:
			cancel()
			ctxDoneBefore = true
			e.Probe("cancel_before_call")
		case op.E == 998 || op.E == 999:
			cn := cancel
			f := func() {
				w.noteCancel(ts)
				e.Probe("cancel_at_handoff")
				cn()
			}
			if op.E == 999 {
				w.beforeUnlock = append(w.beforeUnlock, f)
			} else {
				w.afterUnlock = append(w.afterUnlock, f)
			}
			// (if nobody unlocks any more the attempt simply is not cancelled: it then
			// acquires, or the run's own progress rules apply)
		case op.E > 0 && op.E < 998:
			n := int(op.E)
			cn := cancel
			e.Spawn(fmt.Sprintf("%s.c%d", ts.name, i), func() {
				for k := 0; k < n; k++ {
					zsimrt.Yield("canceller")
				}
				w.noteCancel(ts)
				cn()
			}, nil)
		case op.E >= 1000 && w.c.Knob("deadline_ctx", 0) == 1 && w.be.Kind == backend.InMem:
			// the caller limits the attempt with a deadline on the context itself (code that looks
			// at ctx.Deadline() sees it) instead of cancelling from outside
			cancel()
			ctx, cancel = context.WithTimeout(context.Background(), time.Duration(op.E-1000))
			c3 := ctx
			ts.ctxLive = func() bool { return c3.Err() == nil }
			e.Probe("attempt_with_deadline_context")
		case op.E >= 1000:
			d := time.Duration(op.E - 1000)
			cn := cancel
			e.Spawn(fmt.Sprintf("%s.c%d", ts.name, i), func() {
				zsimrt.Sleep("canceller:sleep", d)
				w.noteCancel(ts)
				cn()
			}, nil)
		}
		if k := w.c.Knob("ctx_cause", 0); k > 0 {
			// a context that ends with an error of the caller's own (golibs' context.WithCancelError,
			// context.WithCancelCause wrappers): Err() is whatever the canceller said, possibly an
			// error of a class the library gives a meaning to
			ctx = causeCtx{ctx, ctxCauses[int(k)%len(ctxCauses)]}
		}
		err = lk.LockWithCtx(ctx)
		ok = err == nil
	}
	ts.acquiring = false
	shutNow := prov.shutInvoked
	ctxDone := ctx.Err() != nil
	e.Logf("%s %s -> ok=%v err=%s", ts.name, op.K, ok, errStr(err))
	if ok {
		if shutBefore && w.prop() == "C04" {
			e.Violate("C04", "acquired_after_shutdown", "%s: %s succeeded although it was invoked after Shutdown of its provider had returned", ts.name, op.K)
		}
		if ctxDoneBefore && w.prop() == "C04" {
			e.Violate("C04", "acquired_with_dead_ctx", "%s: LockWithCtx returned nil although its context was cancelled before the call", ts.name)
		}
		w.enter(ts)
		if op.V == "cancel_after" && cancel != nil {
			// the context only governs the acquisition: it may end while the lock is held
			cancel()
			e.Probe("acquisition_ctx_cancelled_while_holding")
		}
		if op.F {
			// holder death (C05 S2): stay inside for D, then the node is cut off and the task never unlocks
			zsimrt.Sleep("task:hold", time.Duration(op.D))
			w.die(ts)
			if cancel != nil {
				_ = cancel
			}
			return
		}
		for k := int64(0); k < op.N; k++ {
			zsimrt.Yield("task:cs")
		}
		if op.D > 0 {
			zsimrt.Sleep("task:cs", time.Duration(op.D))
		}
		w.leave(ts)
		ts.unlocking = true
		ten := w.curTen[ts.name]
		for _, f := range w.beforeUnlock {
			f()
		}
		w.beforeUnlock = nil
		lk.Unlock()
		for _, f := range w.afterUnlock {
			f()
		}
		w.afterUnlock = nil
		ts.unlocking = false
		if ten != nil {
			ten.unlocked = true
			ten.unlockAt = time.Now()
		}
		delete(w.curTen, ts.name)
		e.Logf("%s unlocked", ts.name)
	} else if op.K == "lockctx" && w.prop() == "C04" {
		isCtx := stderrors.Is(err, context.Canceled) || stderrors.Is(err, context.DeadlineExceeded)
		for _, ce := range ctxCauses {
			if w.c.Knob("ctx_cause", 0) > 0 && stderrors.Is(err, ce) {
				isCtx = true
			}
		}
		isClosed := errors.Is(err, errors.ErrClosed)
		switch {
		case !ctxDone && !shutNow:
			e.Violate("C04", "spurious_failure", "%s: LockWithCtx failed with %q although its context is live, its provider is up and the storage is healthy", ts.name, err)
		case ctxDone && !shutNow && !isCtx:
			e.Violate("C04", "wrong_error", "%s: context ended (provider up) but LockWithCtx returned %q instead of the context's error", ts.name, err)
		case !ctxDone && shutNow && !isClosed:
			e.Violate("C04", "wrong_error", "%s: provider shut down (context live) but LockWithCtx returned %q", ts.name, err)
		case ctxDone && shutNow && !isCtx && !isClosed:
			e.Violate("C04", "wrong_error", "%s: LockWithCtx returned %q, neither the context's error nor a closed error", ts.name, err)
		}
		if isCtx {
			e.Probe("lockctx_cancelled")
		}
		if isClosed {
			e.Probe("lockctx_closed")
		}
	}
	if cancel != nil {
		cancel()
	}
}

func (w *world) noteCancel(ts *taskState) {
	if !ts.acquiring {
		w.e.Probe("cancel_after_return")
		return
	}
	// where is the task parked?
	for _, s := range w.e.RT.All() {
		if strings.HasPrefix(s, ts.name+" ") {
			switch {
			case strings.Contains(s, "kvlock.go"):
				w.e.Probe("cancel_in_local_token_wait_or_lock_code")
			case strings.Contains(s, "inmem.go") || strings.Contains(s, "redis.go") || strings.Contains(s, "st:"):
				w.e.Probe("cancel_in_storage_wait_or_call")
			default:
				w.e.Probe("cancel_elsewhere")
			}
		}
	}
}

func (w *world) die(ts *taskState) {
	e := w.e
	e.Logf("holder %s dies (node %d partitioned)", ts.name, ts.prov.idx)
	w.partitioned[ts.prov.idx] = true
	w.deadNode[ts.prov.idx] = true
	ts.dead = true
	w.deadTask = ts.name
	w.holderDeadAt = time.Now()
	if t := w.curTen[ts.name]; t != nil {
		w.deadLastExpiry = t.expires
		t.active = false
	}
	delete(w.inside, ts.name)
	ts.inside = false
	e.FaultFired("holder_death")
}

// ---------------------------------------------------------------------------

// spinCheck: an attempt whose context has ended gives up within a handful of its own steps
// (it hands the local token back and returns). One that keeps taking steps - thousands of
// them - without returning is in a busy loop: in a simulation that shows as an exhausted step
// budget, which is no verdict, so it is named here.
func (w *world) spinCheck(e *sim.Env) {
	if w.prop() != "C04" {
		return
	}
	for _, ts := range w.tasks {
		if !ts.acquiring || ts.ctxLive == nil || ts.ctxLive() {
			ts.deadCtxSteps = -1
			continue
		}
		n := e.RT.StepsOf(ts.name)
		if ts.deadCtxSteps < 0 {
			ts.deadCtxSteps = n
			continue
		}
		if n-ts.deadCtxSteps > 20000 {
			e.Violate("C04", "cancel_not_honoured", "%s: LockWithCtx has taken %d scheduling steps of its own since its context ended and has not returned: it spins instead of giving up", ts.name, n-ts.deadCtxSteps)
			ts.deadCtxSteps = n
		}
	}
}

func (w *world) Invariant(e *sim.Env) {
	w.spinCheck(e)
	now := time.Now()
	switch w.prop() {
	case "C01", "C04":
		// precondition of exclusion: leases of live holders are renewed in time
		for _, t := range w.curTen {
			if t.active && !t.expires.IsZero() && now.After(t.expires) && !w.voided {
				w.voided = true
				e.Void("lease of holder lapsed (renewal starved/failed): exclusion not judged")
			}
		}
	case "C05":
		if (w.mode == "s1" || w.mode == "s3") && !w.voided {
			for _, name := range sim.SortedKeys(w.curTen) {
				t := w.curTen[name]
				if !t.active || t.hung {
					continue
				}
				if t.lostStreak >= 4 {
					// the renewal schedule (T/2, then every T/8) fits four attempts into the second half
					// of a lease: when all four went unanswered the storage did not answer for that tenure
					w.voided = true
					e.Void("four consecutive renewal requests of the holder were lost: the storage did not answer, lease keeping not judged")
					continue
				}
				rec, ok := w.be.Peek(lockKey)
				if !ok {
					e.Violate("C05", "record_missing_under_holder", "%s holds the lock (tenure #%d) but the lock record does not exist", t.task, t.id)
				} else if rec.ExpiresAt != nil && !now.Before(*rec.ExpiresAt) {
					e.Violate("C05", "lease_lapsed_under_holder", "%s holds the lock (tenure #%d, healthy storage) but the lock record expired %v ago", t.task, t.id, now.Sub(*rec.ExpiresAt))
				}
			}
		}
		if w.mode == "s2" && !w.holderDeadAt.IsZero() && w.entries < 2 {
			if now.Sub(w.holderDeadAt) > 2*w.lease+w.stallSlack() {
				e.Violate("C05", "no_takeover_after_death", "holder %s died %v ago (lease %v, last written expiry %v ago) and no waiting caller has acquired the lock", w.deadTask, now.Sub(w.holderDeadAt), w.lease, now.Sub(w.deadLastExpiry))
			}
		}
	}
	if w.prop() == "C04" {
		w.checkProgress(e, false)
	}
}

func (w *world) stallSlack() time.Duration { return 8*w.e.RT.MaxParked + time.Millisecond }

// checkProgress: lost hand-off detector (C04 oracle 1).
func (w *world) checkProgress(e *sim.Env, quiet bool) {
	// an attempt invoked after Shutdown returned can never acquire (oracle 4), so it
	// has nothing to wait for: if it is still parked when nothing else can happen,
	// the shutdown left a stuck caller behind
	if quiet {
		for _, ts := range w.tasks {
			if !ts.done && ts.acquiring && ts.afterShutdown && ts.ctxLive() {
				e.Violate("C04", "stuck_after_shutdown", "%s invoked an acquisition after Shutdown of its provider had returned; it can never acquire, yet it is still blocked (context live) after %v of simulated time with nothing else going on; goroutines: %s", ts.name, time.Since(ts.blockedSince), strings.Join(e.RT.All(), "; "))
				return
			}
		}
	}
	if len(w.inside) > 0 {
		return
	}
	bound := 3*w.lease + w.sumSleep + time.Minute
	if !quiet && time.Since(e.LastProgress) <= bound {
		return
	}
	var blocked []string
	for _, ts := range w.tasks {
		if ts.done {
			continue
		}
		if ts.unlocking || ts.inside {
			return
		}
		if ts.acquiring && ts.ctxLive() && !ts.prov.shutInvoked {
			blocked = append(blocked, ts.name)
		} else if !ts.acquiring {
			return // somebody is between operations: not stuck
		}
	}
	if len(blocked) == 0 {
		return
	}
	rec, ok := w.be.Peek(lockKey)
	state := "lock record absent"
	if ok {
		_ = rec
		state = "lock record present"
	}
	e.Violate("C04", "lost_handoff", "nobody holds the lock, yet %v stay(s) blocked in an acquisition with a live context for %v of simulated time; %s; goroutines: %s", blocked, time.Since(e.LastProgress), state, strings.Join(e.RT.All(), "; "))
}

func short(s string) string {
	if len(s) > 6 {
		return ".." + s[len(s)-6:]
	}
	return s
}

// Idle: nothing is runnable. On the in-memory backend a deleted lock record
// wakes its waiters at once, so (C04) a caller that is still parked in an
// acquisition while the record is absent and nobody holds or releases the lock
// has lost its wake-up, whatever timer might rescue it later.
func (w *world) Idle(e *sim.Env) {
	if w.prop() != "C04" || w.be == nil || w.be.Kind != backend.InMem || len(w.inside) > 0 {
		return
	}
	if _, present := w.be.Peek(lockKey); present {
		return
	}
	var blocked []string
	for _, ts := range w.tasks {
		if ts.done {
			continue
		}
		if ts.unlocking || ts.inside {
			return
		}
		if ts.acquiring && ts.ctxLive() && !ts.prov.shutInvoked {
			blocked = append(blocked, ts.name)
		} else if !ts.acquiring {
			return // somebody is between operations (e.g. sleeping)
		}
	}
	if len(blocked) == 0 {
		return
	}
	e.Violate("C04", "lost_handoff", "nothing is runnable, the lock record is absent and nobody holds the lock, yet %v stay(s) parked in an acquisition with a live context: the wake-up of the hand-off was lost (a timer may rescue it later, the hand-off did not); goroutines: %s", blocked, strings.Join(e.RT.All(), "; "))
}

func (w *world) Quiet(e *sim.Env) bool {
	if w.prop() == "C04" {
		w.checkProgress(e, true)
		if len(e.Res.Violations) > 0 {
			return true
		}
	}
	e.Inconclusive("quiet horizon reached with work remaining: " + strings.Join(e.RT.All(), "; "))
	return true
}

func (w *world) Finished(e *sim.Env) bool {
	if w.nDone < len(w.tasks) || w.noiseDone < w.noiseTasks {
		return false
	}
	switch w.phase {
	case 0:
		switch w.prop() {
		case "C04":
			w.phase = 1
			e.Spawn("zepi", func() { w.residue() }, nil)
			return false
		case "C05":
			if w.mode == "s3" {
				// let 3 lease periods pass to see renewal die out
				w.phase = 1
				e.Spawn("zepi", func() {
					zsimrt.Sleep("epi:s3", 3*w.lease)
					w.timerResidue("C05")
					w.phase = 2
				}, nil)
				return false
			}
		}
		return true
	case 1:
		return false
	case 2:
		if w.prop() == "C05" && w.mode == "s3" {
			for _, t := range w.tenures {
				if t.unlocked && !t.lastRenewAfterUnlock.IsZero() && t.lastRenewAfterUnlock.Sub(t.unlockAt) > w.lease {
					e.Violate("C05", "renewal_outlives_unlock", "tenure #%d of %s: a renewal call reached the storage %v after Unlock returned (lease %v)", t.id, t.task, t.lastRenewAfterUnlock.Sub(t.unlockAt), w.lease)
				}
			}
			if len(w.inside) == 0 && len(w.curTen) == 0 {
				if rec, ok := w.be.PeekLive(lockKey); ok {
					_ = rec
					e.Violate("C05", "record_alive_after_unlock", "every holder unlocked at least %v ago but a live lock record is still in the storage", 3*w.lease)
				}
			}
		}
		return true
	}
	return true
}

// residue: C04 oracle 3, executed by an epilogue task at quiescence.
func (w *world) residue() {
	e := w.e
	defer func() { w.phase = 2 }()
	if len(w.inside) > 0 {
		return
	}
	if rec, ok := w.be.PeekLive(lockKey); ok {
		_ = rec
		e.Violate("C04", "residue_record", "every holder has unlocked but the lock record is still present")
		return
	}
	for i, lk := range w.lockers {
		if w.provs[w.lockerProv[i]].shutInvoked {
			continue
		}
		zsimrt.Yield("epi:try")
		if !lk.TryLock(context.Background()) {
			e.Violate("C04", "residue_locker", "after every holder unlocked, TryLock on locker #%d (provider %d) fails: something was left behind", i, w.lockerProv[i])
			return
		}
		lk.Unlock()
		e.Probe("residue_relock_ok")
	}
	if n, m := w.be.Waiters(); n != 0 || m != 0 {
		e.Violate("C04", "residue_waiters", "no waiter is left but the storage's waiter table still has %d entries (%d registered waiters)", n, m)
	}
	if _, ok := w.be.PeekLive(lockKey); ok {
		e.Violate("C04", "residue_record", "lock record present after the final TryLock/Unlock round")
	}
	w.timerResidue("C04")
}

// timerResidue: every holder has unlocked and nothing is going on. One renewal
// attempt per tenure may still be armed (it lost the race with Unlock); a lease
// later it has run, found nothing to renew and armed nothing. What is still
// pending in the timer package after that was left behind by the lock code.
func (w *world) timerResidue(prop string) {
	if w.c.Knob("bg_timers", 0) > 0 || w.c.Knob("noise_lock", 0) > 0 || len(w.inside) > 0 || w.deadTask != "" {
		return
	}
	zsimrt.Sleep("epi:settle", w.lease+w.lease/4)
	if n := timeout.VerifPending(); n != 0 {
		w.e.Violate(prop, "residue_timer", "every holder has unlocked and %v of simulated time have passed, yet %d call(s) are still pending in the timeout package: a renewal or retry timer was left armed", w.lease+w.lease/4, n)
		return
	}
	if _, ok := w.be.PeekLive(lockKey); ok {
		w.e.Violate(prop, "residue_record", "the lock record is back %v after every holder had unlocked", w.lease+w.lease/4)
		return
	}
	w.e.Probe("no_timer_left_behind")
}

func (w *world) Teardown(e *sim.Env) {
	if w.be != nil {
		w.be.Close()
	}
}
