// Package timer is the simulation world for package timeout (C12, C13).
package timer

import (
	"fmt"
	"os"
	"sort"
	"strings"
	"time"

	"verifharness/sim"

	"github.com/acquirecloud/golibs/timeout"
	"github.com/acquirecloud/golibs/zsimrt"
)

// a delay of more than a century means "practically never": the run does not
// wait for it, but it must not fire early either
const practicallyNever = 100 * 365 * 24 * time.Hour

type fut struct {
	id        string
	t0        time.Time
	due       time.Time
	d         time.Duration
	f         timeout.Future
	count     int
	start     time.Time
	cancelInv bool      // a Cancel was invoked
	cancelRet time.Time // when the first Cancel returned (zero: none)
	stall     time.Duration
	nested    int64
	created   bool
}

type world struct {
	stalls   [][2]time.Time // [start, end) of callbacks that took simulated time
	c        *sim.Case
	e        *sim.Env
	futs     map[string]*fut
	order    []string
	tasks    int
	tasksEnd int
	phase    int
	mode     string
	idle     time.Duration
	maxW     int
	epiDone  bool
	maxLate  time.Duration
	nestedN  int
}

func New(c *sim.Case) (sim.World, error) {
	return &world{c: c, futs: map[string]*fut{}, mode: c.Mode}, nil
}

func (w *world) prop() string {
	if w.mode == "c13" {
		return "C13"
	}
	return "C12"
}

func (w *world) Setup(e *sim.Env) {
	w.e = e
	e.OnPanic = func(name string, v any, stack string) { w.onPanic(v, stack) }
	w.idle = time.Duration(w.c.Knob("idle_ns", int64(30*time.Second)))
	w.maxW = int(w.c.Knob("max_workers", 10))
	timeout.VerifReset(w.idle, w.maxW)
	for ti := range w.c.Tasks {
		t := w.c.Tasks[ti]
		w.tasks++
		e.Spawn(t.Name, func() { w.runTask(t) }, w.onPanic)
	}
}

func (w *world) onPanic(v any, stack string) {
	w.e.Violate(w.prop(), "panic", "panic: %v", v)
}

func (w *world) callback(f *fut) func() {
	return func() {
		e := w.e
		now := time.Now()
		f.count++
		e.Logf("fire %s count=%d late=%v", f.id, f.count, now.Sub(f.due))
		if f.count == 1 {
			f.start = now
			if l := now.Sub(f.due); l > w.maxLate && f.d >= 0 {
				w.maxLate = l
			}
		}
		if now.Before(f.due) {
			e.Violate("C12", "early", "future %s (delay %v) started %v before it was due", f.id, f.d, f.due.Sub(now))
		}
		if f.count > 1 {
			e.Violate("C12", "twice", "future %s started %d times", f.id, f.count)
		}
		if !f.cancelRet.IsZero() && f.cancelRet.Before(f.due) {
			e.Violate("C12", "cancelled_fired", "future %s started although Cancel returned %v before it was due", f.id, f.due.Sub(f.cancelRet))
		}
		e.Progress()
		switch f.nested {
		case 1:
			w.nestedN++
			w.doCall(fmt.Sprintf("%s.n", f.id), time.Millisecond, 0, 0)
		case 2:
			// cancel the most recently created other future
			for i := len(w.order) - 1; i >= 0; i-- {
				o := w.futs[w.order[i]]
				if o != f && o.created && o.f != nil {
					w.doCancel(o)
					break
				}
			}
		}
		if f.stall > 0 {
			e.Probe("callback_stalled")
			w.stalls = append(w.stalls, [2]time.Time{time.Now(), time.Now().Add(f.stall)})
			zsimrt.Sleep("cb:stall", f.stall)
		}
	}
}

func (w *world) doCall(id string, d, stall time.Duration, nested int64) {
	f := &fut{id: id, d: d, stall: stall, nested: nested}
	w.futs[id] = f
	w.order = append(w.order, id)
	f.t0 = time.Now()
	f.due = f.t0.Add(d)
	f.created = true
	w.e.Logf("call %s d=%v", id, d)
	f.f = timeout.Call(w.callback(f), d)
}

func (w *world) doCancel(f *fut) {
	f.cancelInv = true
	w.e.Logf("cancel %s", f.id)
	f.f.Cancel()
	if f.cancelRet.IsZero() {
		f.cancelRet = time.Now()
	}
	if f.count > 0 {
		w.e.Probe("cancel_after_fire")
	} else if f.cancelRet.Before(f.due) {
		w.e.Probe("cancel_before_due")
	} else {
		w.e.Probe("cancel_after_due_unfired")
	}
}

func (w *world) runTask(t sim.Task) {
	e := w.e
	for i, op := range t.Ops {
		zsimrt.Yield("task:op")
		switch op.K {
		case "call":
			w.doCall(fmt.Sprintf("%s.%d", t.Name, i), time.Duration(op.D), time.Duration(op.E), op.N)
		case "callnil":
			// Call(nil, d) schedules nothing; the future it returns can be cancelled like any
			// other, with no effect on anybody
			id := fmt.Sprintf("%s.%d", t.Name, i)
			f := &fut{id: id, d: time.Duration(op.D), cancelInv: true}
			w.futs[id] = f
			w.order = append(w.order, id)
			f.t0 = time.Now()
			f.due = f.t0.Add(f.d)
			f.created = true
			e.Logf("call %s d=%v with a nil function", id, f.d)
			f.f = timeout.Call(nil, f.d)
			e.Probe("call_with_nil_function")
		case "callat":
			// several futures with exactly the same fire instant: the delay is computed in
			// the very step in which Call reads the clock
			target := e.Start.Add(time.Duration(op.D))
			d := time.Until(target)
			if d < 0 {
				d = 0
			}
			w.doCall(fmt.Sprintf("%s.%d", t.Name, i), d, time.Duration(op.E), 0)
		case "bulkcall":
			// op.N futures in one go, due at op.D, op.D+op.E, ... after now (a big population:
			// what the package does per future it may do differently per thousand)
			for k := int64(0); k < op.N; k++ {
				w.doCall(fmt.Sprintf("%s.%d#%d", t.Name, i, k), time.Duration(op.D+k*op.E), 0, 0)
			}
			e.Probe("bulk_population_scheduled")
		case "bulkcancel":
			// Cancel for every op.E-th future of the population op.S (again, if cancelled before)
			for k := int64(0); k < op.N; k += op.E {
				if f := w.futs[fmt.Sprintf("%s#%d", op.S, k)]; f != nil && f.created && f.f != nil {
					w.doCancel(f)
				}
			}
		case "cancel":
			f := w.futs[op.S]
			if f == nil || !f.created || f.f == nil {
				e.Logf("cancel %s skipped (not created yet)", op.S)
				e.Probe("cancel_skipped")
				break
			}
			w.doCancel(f)
		case "print":
			// a Future is printable (fmt goes through its String method), in any state
			f := w.futs[op.S]
			if f == nil || !f.created || f.f == nil {
				e.Probe("print_skipped")
				break
			}
			if s := fmt.Sprint(f.f); s == "" {
				e.Violate(w.prop(), "print", "printing future %s gave an empty string", f.id)
			}
			e.Probe("future_printed")
		case "sleep":
			zsimrt.Sleep("task:sleep", time.Duration(op.D))
		}
		e.OpsDone++
		e.Progress()
	}
	w.tasksEnd++
}

func (w *world) pkgGoroutines() []string {
	var out []string
	for _, s := range w.e.RT.All() {
		name := strings.SplitN(s, " ", 2)[0]
		if strings.Contains(name, "/") {
			out = append(out, s)
		}
	}
	return out
}

// lateness slack measured from the scheduler's own stalls (DESIGN C13).
func (w *world) slack() time.Duration {
	return 4*w.e.RT.MaxParked + time.Microsecond
}

func (w *world) Finished(e *sim.Env) bool {
	if w.tasksEnd < w.tasks {
		return false
	}
	switch w.phase {
	case 0:
		// epilogue 1: wait until everything that can fire has fired
		w.phase = 1
		var maxDue time.Time
		var stalls time.Duration
		for _, id := range w.order {
			f := w.futs[id]
			if f.d > practicallyNever {
				continue
			}
			// a stalled callback of a future that fired before it was cancelled still
			// occupies a worker
			stalls += f.stall
			if f.cancelInv {
				// a cancelled future is nothing to wait for (C13: "when nothing is
				// pending the package winds down")
				continue
			}
			if f.due.After(maxDue) {
				maxDue = f.due
			}
		}
		wait := time.Until(maxDue)
		if wait < 0 {
			wait = 0
		}
		wait += stalls + time.Second + time.Duration(w.nestedN+len(w.order))*time.Millisecond
		e.Spawn("zepi1", func() {
			zsimrt.Sleep("epi:wait", wait)
			// practically-never futures are cancelled now (by a task, not by the
			// scheduler) so that the pool can wind down
			for _, id := range append([]string(nil), w.order...) {
				f := w.futs[id]
				if f.d > practicallyNever && f.count == 0 && f.f != nil && !f.cancelInv {
					f.cancelInv = true
					f.f.Cancel()
				}
			}
			w.phase = 2
		}, w.onPanic)
		return false
	case 1:
		return false
	case 2:
		// all never-cancelled futures must have fired exactly once
		ids := append([]string(nil), w.order...)
		sort.Strings(ids)
		for _, id := range ids {
			f := w.futs[id]
			if f.d > practicallyNever {
				continue
			}
			if !f.cancelInv && f.count != 1 {
				if w.mode == "c13" {
					e.Violate("C13", "not_fired", "future %s (delay %v) was never cancelled and callbacks return promptly, yet it started %d times by %v past its due time", f.id, f.d, f.count, time.Since(f.due))
				} else {
					e.Violate("C12", "collateral_or_lost", "future %s (delay %v) was never cancelled but started %d times by the end (%v past due)", f.id, f.d, f.count, time.Since(f.due))
				}
			}
		}
		if w.mode != "c13" {
			return true
		}
		// wind-down
		w.phase = 3
		e.Spawn("zepi2", func() {
			zsimrt.Sleep("epi:idle", 10*w.idle+time.Second)
			w.phase = 4
		}, w.onPanic)
		return false
	case 3:
		return false
	case 4:
		if n := timeout.VerifWatchers(); n != 0 {
			e.Violate("C13", "wind_down", "%d workers still registered after %v of inactivity (idle timeout %v)", n, 10*w.idle+time.Second, w.idle)
		}
		if g := w.pkgGoroutines(); len(g) > 0 {
			e.Violate("C13", "wind_down_goroutines", "package goroutines still alive after wind-down: %v", g)
		}
		w.phase = 5
		e.Spawn("zepi3", func() {
			w.doCall("zepi3.restart", time.Millisecond, 0, 0)
			zsimrt.Sleep("epi:restart", 50*time.Millisecond)
			w.phase = 6
		}, w.onPanic)
		return false
	case 5:
		return false
	case 6:
		if f := w.futs["zepi3.restart"]; f == nil || f.count != 1 {
			e.Violate("C13", "restart", "a Call issued after wind-down did not fire within 50ms")
		} else {
			e.Probe("restart_after_wind_down")
		}
		return true
	}
	return true
}

func (w *world) Invariant(e *sim.Env) {}

// Idle: nothing is runnable; the clock is about to jump.
func (w *world) Idle(e *sim.Env) {
	if w.mode != "c13" {
		return
	}
	now := time.Now()
	L := w.slack()
	for _, id := range w.order {
		f := w.futs[id]
		if f.cancelInv || f.count > 0 || !f.created || f.f == nil || f.d > practicallyNever {
			continue
		}
		if w.stalledSince(f.due) {
			// a callback that takes its time held a worker while this future was due: its
			// lateness is the callback's doing ("when callbacks return promptly")
			continue
		}
		if now.Sub(f.due) > L {
			e.Violate("C13", "asleep_past_deadline", "nothing is runnable while future %s (delay %v) is overdue by %v (slack %v); workers=%d pending=%d", f.id, f.d, now.Sub(f.due), L, timeout.VerifWatchers(), timeout.VerifPending())
			return
		}
	}
}

// stalledSince: was some callback inside its stall at any moment from t on?
func (w *world) stalledSince(t time.Time) bool {
	for _, iv := range w.stalls {
		if iv[1].After(t) {
			return true
		}
	}
	return false
}

func (w *world) Quiet(e *sim.Env) bool {
	e.Inconclusive("quiet horizon reached with work remaining: " + strings.Join(e.RT.All(), "; "))
	return true
}

func (w *world) Teardown(e *sim.Env) {
	e.Res.Probes["max_lateness_ns"] = int64(w.maxLate)
}

// ---------------------------------------------------------------------------
// Generation

var forcePattern bool

func Generate(r *sim.Rng, prop, tier string, idx int) *sim.Case {
	c := &sim.Case{World: "timer", Prop: prop, Knobs: map[string]int64{}}
	if prop == "C13" {
		c.Mode = "c13"
	} else {
		c.Mode = "c12"
	}
	idle := sim.Pick(r, time.Millisecond, 10*time.Millisecond, 200*time.Millisecond, time.Second, 30*time.Second)
	maxW := 1 + r.Intn(10)
	if r.Chance(1, 3) {
		maxW = 1 + r.Intn(2)
	}
	c.Knobs["idle_ns"] = int64(idle)
	c.Knobs["max_workers"] = int64(maxW)
	F := sim.Pick(r, 16, 64, 256)
	prof := sim.Pick(r, int64(10), int64(1000), int64(100000))
	capJ := int64(idle) / int64(16*F)
	if capJ < 1 {
		capJ = 1
	}
	if prof > capJ {
		prof = capJ
	}
	c.Sched = sim.SchedCfg{F: F, MaxJitter: prof, StickyPct: sim.Pick(r, 0, 50, 90), MaxSteps: 40000, HorizonNs: int64(24 * time.Hour)}
	if r.Chance(1, 5) {
		c.Sched.PCTDepth = 2 + r.Intn(3)
		c.Sched.PCTLen = 200
	}
	nt := 1 + r.Intn(4)
	if tier == "thorough" && r.Chance(1, 4) {
		nt = 1 + r.Intn(6)
	}
	if c.Mode == "c12" && r.Chance(1, 40) {
		// a big population: more than a thousand futures pending at once, drained, and the old
		// futures cancelled (again) while a few new ones are pending
		n := int64(sim.Pick(r, 1100, 1500, 2100, 2600, 4200))
		c.Sched.MaxSteps = 3000000
		c.Knobs["big_population"] = n
		task := sim.Task{Name: "t0"}
		step := int64(sim.Pick(r, 2*time.Microsecond, 5*time.Microsecond, 20*time.Microsecond))
		task.Ops = append(task.Ops, sim.Op{K: "bulkcall", N: n, D: int64(time.Millisecond), E: step})
		if r.Chance(1, 2) {
			// part of it is cancelled while pending
			task.Ops = append(task.Ops, sim.Op{K: "bulkcancel", S: "t0.0", N: n, E: int64(sim.Pick(r, 2, 3, 7, 50))})
		}
		task.Ops = append(task.Ops, sim.Op{K: "sleep", D: int64(time.Millisecond) + n*step + int64(sim.Pick(r, -n*step/2, 0, int64(50*time.Millisecond)))})
		nv := 3 + r.Intn(40)
		for k := 0; k < nv; k++ {
			task.Ops = append(task.Ops, sim.Op{K: "call", D: int64(sim.Pick(r, 50*time.Millisecond, 200*time.Millisecond, time.Second)) + int64(k)*int64(time.Microsecond)})
		}
		task.Ops = append(task.Ops, sim.Op{K: "bulkcancel", S: "t0.0", N: n, E: int64(sim.Pick(r, 1, 1, 2, 5))})
		task.Ops = append(task.Ops, sim.Op{K: "sleep", D: int64(2 * time.Second)})
		c.Tasks = append(c.Tasks, task)
		return c
	}
	if c.Mode == "c12" {
		delays := []time.Duration{time.Duration(1<<63 - 1), 250 * 365 * 24 * time.Hour, -time.Millisecond, -1, time.Duration(-1 << 63), 0, 0, time.Microsecond, time.Millisecond, time.Millisecond, 5 * time.Millisecond, 5 * time.Millisecond, 50 * time.Millisecond, time.Second, time.Minute, 10 * time.Minute}
		for t := 0; t < nt; t++ {
			task := sim.Task{Name: fmt.Sprintf("t%d", t)}
			n := 2 + r.Intn(7)
			for i := 0; i < n; i++ {
				switch r.Intn(10) {
				case 0, 1, 2, 3, 4:
					op := sim.Op{K: "call", D: int64(delays[r.Intn(len(delays))])}
					if r.Chance(1, 8) {
						op.D = int64(time.Duration(r.Intn(2000)) * time.Microsecond)
					}
					if r.Chance(1, 5) {
						op.E = int64(sim.Pick(r, time.Millisecond, 100*time.Millisecond, 10*time.Second))
					}
					if r.Chance(1, 8) {
						op.N = int64(1 + r.Intn(2))
					}
					if r.Chance(1, 25) {
						op = sim.Op{K: "callnil", D: op.D}
					}
					task.Ops = append(task.Ops, op)
				case 5, 6, 7:
					// cancel some future created earlier by any task (by construction order)
					var ids []string
					for _, ot := range c.Tasks {
						for j, oo := range ot.Ops {
							if oo.K == "call" || oo.K == "callat" || oo.K == "callnil" {
								ids = append(ids, fmt.Sprintf("%s.%d", ot.Name, j))
							}
						}
					}
					for j, oo := range task.Ops {
						if oo.K == "call" || oo.K == "callat" || oo.K == "callnil" {
							ids = append(ids, fmt.Sprintf("%s.%d", task.Name, j))
						}
					}
					if len(ids) == 0 {
						task.Ops = append(task.Ops, sim.Op{K: "call", D: int64(delays[r.Intn(len(delays))])})
					} else {
						id := ids[r.Intn(len(ids))]
						task.Ops = append(task.Ops, sim.Op{K: "cancel", S: id})
						if r.Chance(1, 6) {
							// e.g. a log line about what was cancelled (or about any other future)
							task.Ops = append(task.Ops, sim.Op{K: "print", S: sim.Pick(r, id, ids[r.Intn(len(ids))])})
						}
					}
				case 8:
					// a group of futures sharing one fire instant, some of them cancelled (also twice)
					target := int64(sim.Pick(r, time.Millisecond, 10*time.Millisecond, 200*time.Millisecond)) + int64(t)*0
					g := 2 + r.Intn(5)
					first := len(task.Ops)
					for k := 0; k < g; k++ {
						task.Ops = append(task.Ops, sim.Op{K: "callat", D: target})
					}
					nc := 1 + r.Intn(2)
					for k := 0; k < nc; k++ {
						victim := fmt.Sprintf("%s.%d", task.Name, first+r.Intn(g))
						task.Ops = append(task.Ops, sim.Op{K: "cancel", S: victim})
						if r.Chance(1, 2) {
							task.Ops = append(task.Ops, sim.Op{K: "cancel", S: victim})
						}
					}
					i += g
				default:
					task.Ops = append(task.Ops, sim.Op{K: "sleep", D: int64(sim.Pick(r, time.Microsecond, 500*time.Microsecond, time.Millisecond, 5*time.Millisecond, 60*time.Millisecond, 2*time.Second, time.Minute))})
				}
			}
			c.Tasks = append(c.Tasks, task)
		}
		return c
	}
	// c13: arrival patterns
	if nt > 3 {
		nt = 3
	}
	if os.Getenv("DSIM_C13_EXPIRY") != "" {
		// (experiment switch: only the "new head at an idle expiry" pattern, one task)
		nt = 1
		forcePattern = true
		c.Sched.OldTimers = true
	}
	for t := 0; t < nt; t++ {
		task := sim.Task{Name: fmt.Sprintf("t%d", t)}
		np := 1 + r.Intn(3)
		for p := 0; p < np; p++ {
			pat := r.Intn(8)
			if forcePattern {
				pat = 6
			}
			switch pat {
			case 6, 7: // a burst leaves several workers behind; a new head arrives within a few steps of
				// the instant at which an idle worker's sleep runs out (one or two idle rounds later)
				nb := 2 + r.Intn(3)
				for i := 0; i < nb; i++ {
					op := sim.Op{K: "call", D: 0}
					if i == 0 && maxW > nb && r.Chance(2, 3) {
						// one callback takes a while (the pool has room): the workers go idle at
						// different moments, so their idle rounds are out of phase
						op.E = int64(sim.Pick(r, idle/2, idle/3, idle/5))
					}
					task.Ops = append(task.Ops, op)
				}
				rounds := int64(1 + r.Intn(2))
				// (most steps advance the clock by far less than max_jitter: the phase between the
				// task's timer and a worker's timer is of the order of max_jitter itself)
				off := r.I64n(8*c.Sched.MaxJitter) - 2*c.Sched.MaxJitter
				if r.Chance(1, 4) {
					off = r.I64n(80*c.Sched.MaxJitter) - 10*c.Sched.MaxJitter
				}
				task.Ops = append(task.Ops, sim.Op{K: "sleep", D: rounds*int64(idle) + off})
				task.Ops = append(task.Ops, sim.Op{K: "call", D: int64(sim.Pick(r, idle/20, idle/4, idle/2))})
				// and then nothing from this task for a while: whoever was woken for that head is on its own
				task.Ops = append(task.Ops, sim.Op{K: "sleep", D: int64(idle)})
			case 0: // far then near (the far one may be "practically never": it must not stand in the way of anything)
				task.Ops = append(task.Ops, sim.Op{K: "call", D: int64(sim.Pick(r, time.Minute, 10*time.Second, time.Hour, time.Hour, time.Duration(1<<63-1), 250*365*24*time.Hour, 292*365*24*time.Hour))})
				if r.Chance(1, 2) {
					task.Ops = append(task.Ops, sim.Op{K: "sleep", D: int64(sim.Pick(r, time.Microsecond, time.Millisecond, 2*idle))})
				}
				task.Ops = append(task.Ops, sim.Op{K: "call", D: int64(sim.Pick(r, time.Millisecond, 3*time.Millisecond, 50*time.Millisecond))})
			case 1: // burst
				n := 2 + r.Intn(maxW+4)
				if n > 14 {
					n = 14
				}
				d := int64(sim.Pick(r, 0, time.Millisecond, 2*time.Millisecond))
				for i := 0; i < n; i++ {
					task.Ops = append(task.Ops, sim.Op{K: "call", D: d})
				}
			case 2: // cancel head
				h := len(task.Ops)
				task.Ops = append(task.Ops, sim.Op{K: "call", D: int64(5 * time.Millisecond)})
				task.Ops = append(task.Ops, sim.Op{K: "call", D: int64(sim.Pick(r, 20*time.Millisecond, 50*time.Millisecond, time.Second))})
				task.Ops = append(task.Ops, sim.Op{K: "cancel", S: fmt.Sprintf("%s.%d", task.Name, h)})
				if r.Chance(1, 3) {
					task.Ops = append(task.Ops, sim.Op{K: "print", S: fmt.Sprintf("%s.%d", task.Name, h+r.Intn(2))})
				}
			case 5: // a far future that is the only thing pending, then cancelled
				h := len(task.Ops)
				task.Ops = append(task.Ops, sim.Op{K: "call", D: int64(sim.Pick(r, time.Minute, 10*time.Minute, time.Hour))})
				task.Ops = append(task.Ops, sim.Op{K: "sleep", D: int64(sim.Pick(r, time.Microsecond, time.Millisecond, idle))})
				task.Ops = append(task.Ops, sim.Op{K: "cancel", S: fmt.Sprintf("%s.%d", task.Name, h)})
			case 3: // idle gap
				task.Ops = append(task.Ops, sim.Op{K: "sleep", D: int64(2*idle) + int64(sim.Pick(r, time.Microsecond, idle/2, idle, 3*idle))})
				task.Ops = append(task.Ops, sim.Op{K: "call", D: int64(sim.Pick(r, 0, time.Millisecond, idle/2, idle+time.Millisecond))})
			default:
				task.Ops = append(task.Ops, sim.Op{K: "call", D: int64(time.Duration(r.Intn(5000)) * time.Microsecond)})
			}
		}
		c.Tasks = append(c.Tasks, task)
	}
	return c
}
