// Package backend builds the kvs.Storage under test for the lock and kv
// worlds: the real in-memory backend, or the real Redis backend talking to an
// in-process miniredis over a simulated transport (see redis.go).
package backend

import (
	"time"

	"verifharness/sim"

	"github.com/acquirecloud/golibs/kvs"
	"github.com/acquirecloud/golibs/kvs/inmem"
)

type Kind int64

const (
	InMem Kind = 0
	Redis Kind = 1
)

func (k Kind) String() string {
	if k == Redis {
		return "redis"
	}
	return "inmem"
}

type Backend struct {
	Kind  Kind
	mem   kvs.Storage
	redis *redisWorld
	e     *sim.Env
}

func New(e *sim.Env, kind Kind, c *sim.Case) (*Backend, error) {
	b := &Backend{Kind: kind, e: e}
	switch kind {
	case InMem:
		b.mem = inmem.New()
	case Redis:
		rw, err := newRedisWorld(e, c)
		if err != nil {
			return nil, err
		}
		b.redis = rw
	}
	return b, nil
}

// SetServerError makes the Redis server answer every command with an error reply (""
// ends it): the server is up and reachable but refuses to work (loading, out of memory,
// misconfigured). No effect on the in-memory backend.
func (b *Backend) SetServerError(msg string) {
	if b.redis != nil {
		b.redis.refuse = msg
	}
}

// Client returns the storage handle of party i.
func (b *Backend) Client(i int) kvs.Storage {
	if b.Kind == InMem {
		return b.mem
	}
	return b.redis.client(i)
}

// Peek returns the stored record as is (no lazy expiry, no locking). Call at
// quiescence or from a controlled goroutine between its own operations.
func (b *Backend) Peek(key string) (kvs.Record, bool) {
	if b.Kind == InMem {
		return inmem.VerifPeek(b.mem, key)
	}
	return b.redis.peek(key)
}

// PeekLive: the record exists and is not expired at the current simulated time.
func (b *Backend) PeekLive(key string) (kvs.Record, bool) {
	r, ok := b.Peek(key)
	if !ok {
		return r, false
	}
	if r.ExpiresAt != nil && !time.Now().Before(*r.ExpiresAt) {
		return r, false
	}
	return r, true
}

// Waiters returns the in-memory backend's waiter-table size and registered
// waiter count (0,0 for Redis, which polls).
func (b *Backend) Waiters() (int, int) {
	if b.Kind == InMem {
		return inmem.VerifWaiters(b.mem)
	}
	return 0, 0
}

func (b *Backend) Close() {
	if b.redis != nil {
		b.redis.close()
	}
}
