package backend

import (
	"errors"

	"verifharness/sim"

	"github.com/acquirecloud/golibs/kvs"
)

// placeholder until the simulated Redis transport is in place
type redisWorld struct{}

func newRedisWorld(e *sim.Env, c *sim.Case) (*redisWorld, error) {
	return nil, errors.New("redis backend not built yet")
}
func (r *redisWorld) client(i int) kvs.Storage            { return nil }
func (r *redisWorld) peek(key string) (kvs.Record, bool) { return kvs.Record{}, false }
func (r *redisWorld) close()                              {}
