package backend

import (
	"context"
	"fmt"
	"net"
	"strconv"
	"strings"
	"sync"
	"testing/synctest"
	"time"

	"verifharness/sim"

	"github.com/acquirecloud/golibs/kvs"
	golibskvspb "github.com/acquirecloud/golibs/kvs/genproto/golibskvspb/v1"
	gredis "github.com/acquirecloud/golibs/kvs/redis"
	"github.com/acquirecloud/golibs/zsimrt"
	"github.com/alicebob/miniredis/v2"
	"github.com/go-redis/redis/v8"
	"google.golang.org/protobuf/proto"
)

// redisWorld: the real kvs/redis client code and the real go-redis client
// against an in-process miniredis. The TCP listener is closed at once; every
// connection is a pair of net.Pipe()s with two pump goroutines in between
// that park before delivering each command and each reply, so the scheduler
// decides the interleaving of commands of different connections (DESIGN 2.6).
type redisWorld struct {
	skew    time.Duration
	latency time.Duration
	e       *sim.Env
	m       *miniredis.Miniredis
	clients map[int]kvs.Storage
	last    time.Time
	conns   []net.Conn
	nconn   int
	cmds    int64
	refuse  string // != "": single commands are answered with this error reply
	refused int64
	// SCAN as a real server does it (miniredis returns every match in one page): with
	// scanPage > 0 the pump takes the full answer of "SCAN 0" from the server and hands it to
	// the client in pages of that many keys, scanEmpty empty pages before each of them (on a
	// real server MATCH is applied after COUNT keys were walked: pages can be empty while
	// the cursor is not 0)
	scanPage  int
	scanEmpty int
	// lost messages: burst ordinal (all connections) -> "req_lost" | "reply_lost". The connection
	// breaks: the client sees an I/O error and cannot know whether the server executed anything
	netFaults map[int64]string
	bursts    int64
	dropS2C   map[int]bool
	gets      int64 // lone GET bursts so far (fault kind get_lost counts these)
	failDials int   // the next dials fail (the tunnel to the server is down for a moment)
	LostMsgs  int64
	pmu       sync.Mutex          // guards scans, capture and dropS2C (touched by the pumps of a connection)
	scans     map[int][][]string  // connection -> pages still to hand out (index = cursor)
	capture   map[int]chan []byte // connection -> where the next complete server reply goes
}

func newRedisWorld(e *sim.Env, c *sim.Case) (*redisWorld, error) {
	m := miniredis.NewMiniRedis()
	if err := m.Start(); err != nil {
		return nil, err
	}
	// closes the TCP listener only; the command table stays, ServeConn works
	m.Server().Close()
	m.Seed(1)
	now := time.Now()
	m.SetTime(now.Add(time.Duration(c.Knob("redis_clock_skew_ns", 0))))
	nf := map[int64]string{}
	for _, f := range c.Faults {
		if f.Seam == "net" && f.Kind == "get_lost" {
			nf[-f.Ord] = f.Kind // counted in lone GETs, not in bursts
		} else if f.Seam == "net" {
			nf[f.Ord] = f.Kind
		}
	}
	return &redisWorld{netFaults: nf, dropS2C: map[int]bool{}, scanPage: int(c.Knob("scan_page", 0)), scanEmpty: int(c.Knob("scan_empty_pages", 0)), scans: map[int][][]string{}, capture: map[int]chan []byte{}, e: e, m: m, clients: map[int]kvs.Storage{}, last: now, latency: time.Duration(c.Knob("net_latency_ns", 0)), skew: time.Duration(c.Knob("redis_clock_skew_ns", 0))}, nil
}

func (rw *redisWorld) syncClock() {
	now := time.Now()
	if d := now.Sub(rw.last); d > 0 {
		rw.m.FastForward(d)
		// the server's wall clock may be off against the clients' (knob redis_clock_skew_ns):
		// relative TTLs do not care, absolute expiry commands would
		rw.m.SetTime(now.Add(rw.skew))
		rw.last = now
	}
}

func (rw *redisWorld) client(i int) kvs.Storage {
	if c, ok := rw.clients[i]; ok {
		return c
	}
	opts := &redis.Options{
		Addr:               "sim",
		Dialer:             rw.dial,
		MaxRetries:         -1,
		ReadTimeout:        -1,
		WriteTimeout:       -1,
		DialTimeout:        10000 * time.Hour,
		PoolTimeout:        10000 * time.Hour,
		IdleTimeout:        -1,
		IdleCheckFrequency: -1,
		PoolSize:           16,
	}
	c := gredis.New(opts)
	rw.clients[i] = c
	return c
}

func (rw *redisWorld) dial(ctx context.Context, network, addr string) (net.Conn, error) {
	if rw.failDials > 0 {
		// what a dialer with a time limit of its own reports: an error that wraps a context error
		// which is not the caller's
		rw.failDials--
		rw.e.FaultFired("net_dial_failed")
		return nil, fmt.Errorf("tunnel dial %s: %w", addr, context.DeadlineExceeded)
	}
	c1, c2 := net.Pipe()
	p1, p2 := net.Pipe()
	rw.m.Server().ServeConn(p2)
	rw.nconn++
	id := rw.nconn
	rw.conns = append(rw.conns, c1, c2, p1, p2)
	rw.e.Probe("redis_connections")
	zsimrt.Go("pump:c2s", func() { rw.pumpC2S(id, c2, p1) })
	zsimrt.Go("pump:s2c", func() { rw.pumpS2C(id, p1, c2) })
	return c1, nil
}

// parseCommand splits one RESP array (a command) off the front of b.
func parseCommand(b []byte) (cmd []byte, rest []byte, name string, ok bool) {
	if len(b) == 0 || b[0] != '*' {
		return nil, b, "", false
	}
	i := indexCRLF(b, 0)
	if i < 0 {
		return nil, b, "", false
	}
	n, err := strconv.Atoi(string(b[1:i]))
	if err != nil {
		return nil, b, "", false
	}
	pos := i + 2
	for k := 0; k < n; k++ {
		if pos >= len(b) || b[pos] != '$' {
			return nil, b, "", false
		}
		j := indexCRLF(b, pos)
		if j < 0 {
			return nil, b, "", false
		}
		l, err := strconv.Atoi(string(b[pos+1 : j]))
		if err != nil {
			return nil, b, "", false
		}
		start := j + 2
		if start+l+2 > len(b) {
			return nil, b, "", false
		}
		if k == 0 {
			name = strings.ToUpper(string(b[start : start+l]))
		}
		pos = start + l + 2
	}
	return b[:pos], b[pos:], name, true
}

func indexCRLF(b []byte, from int) int {
	for i := from; i+1 < len(b); i++ {
		if b[i] == '\r' && b[i+1] == '\n' {
			return i
		}
	}
	return -1
}

func (rw *redisWorld) pumpC2S(id int, from, to net.Conn) {
	buf := make([]byte, 65536)
	var acc []byte
	inTx := false
	for {
		n, err := from.Read(buf)
		if err != nil {
			// the client side is gone; tell the server in a step of its own, so
			// that it never races with a reply the server is still producing
			zsimrt.Yield("net:c2s:close")
			to.Close()
			return
		}
		acc = append(acc, buf[:n]...)
		rw.bursts++
		if kind := rw.netFaults[rw.bursts]; kind != "" {
			zsimrt.Yield("net:c2s:fault")
			if rw.latency > 0 {
				// lost or not, the burst is under way as long as any other
				zsimrt.Sleep("net:latency", rw.latency)
			}
			rw.LostMsgs++
			rw.e.FaultFired("net_" + kind)
			rw.e.Logf("redis conn%d burst #%d: %s, connection broken", id, rw.bursts, kind)
			if kind == "reply_lost" {
				// the server gets and executes everything; what it answers never arrives
				rw.pmu.Lock()
				rw.dropS2C[id] = true
				rw.pmu.Unlock()
				rw.syncClock()
				for {
					cmd, rest, _, ok := parseCommand(acc)
					if !ok {
						break
					}
					acc = append([]byte(nil), rest...)
					rw.cmds++
					if _, err := to.Write(cmd); err != nil {
						break
					}
				}
			}
			from.Close()
			to.Close()
			return
		}
		first := true
		single := false
		if _, rest, nm, ok := parseCommand(acc); ok && len(rest) == 0 {
			single = true // one command travels alone: the client waits for its reply
			if nm == "GET" && !inTx {
				rw.gets++
				if rw.netFaults[-rw.gets] == "get_lost" {
					// a read that never arrives (nothing happens at the server), the connection breaks
					// and the tunnel is down when the client dials again
					zsimrt.Yield("net:c2s:fault")
					rw.LostMsgs++
					rw.failDials++
					rw.e.FaultFired("net_get_lost")
					rw.e.Logf("redis conn%d GET #%d lost, connection broken", id, rw.gets)
					from.Close()
					to.Close()
					return
				}
			}
		}
		for {
			cmd, rest, name, ok := parseCommand(acc)
			if !ok {
				break
			}
			acc = append([]byte(nil), rest...)
			zsimrt.Yield("net:c2s:" + name)
			if name == "SCAN" && single && rw.scanPage > 0 && rw.refuse == "" {
				if rw.latency > 0 {
					rw.e.FaultFired("network_latency")
					zsimrt.Sleep("net:latency", rw.latency)
				}
				if reply, ok := rw.scan(id, cmd, to); ok {
					rw.e.Logf("redis conn%d <- SCAN (paged)", id)
					if _, err := from.Write(reply); err != nil {
						return
					}
					continue
				}
			}
			if rw.refuse != "" && single && !inTx && name != "MULTI" && name != "EXEC" && name != "WATCH" && name != "UNWATCH" && name != "DISCARD" {
				// the server is up but refuses to work: an error reply instead of an answer.
				// Only commands that travel alone are refused (their reply is read before anything
				// else is sent, so replies stay aligned); pipelines and transactions pass
				rw.e.Logf("redis conn%d <- %s refused", id, name)
				rw.refused++
				if _, err := from.Write([]byte("-" + rw.refuse + "\r\n")); err != nil {
					return
				}
				continue
			}
			switch name {
			case "MULTI":
				inTx = true
			case "EXEC", "DISCARD":
				inTx = false
			}
			if rw.latency > 0 && first {
				// a network that takes its time: the world moves on while a packet travels. Commands
				// written in one go (a pipeline, MULTI ... EXEC) travel together: the latency is paid
				// once per burst, whatever the number of commands in it
				rw.e.FaultFired("network_latency")
				zsimrt.Sleep("net:latency", rw.latency)
			}
			first = false
			rw.syncClock()
			rw.cmds++
			rw.e.Logf("redis conn%d <- %s", id, name)
			if _, err := to.Write(cmd); err != nil {
				zsimrt.Yield("net:c2s:close")
				from.Close()
				return
			}
		}
	}
}

func (rw *redisWorld) pumpS2C(id int, from, to net.Conn) {
	// the socket buffer of the connection: what the server has written waits here until the
	// client reads it (net.Pipe has no buffer of its own - a client that writes a long pipeline
	// before reading any reply would block the server, and through it itself, for ever)
	q := make(chan []byte, 1<<16)
	go func() {
		buf := make([]byte, 65536)
		for {
			n, err := from.Read(buf)
			if err != nil {
				close(q)
				return
			}
			q <- append([]byte(nil), buf[:n]...)
		}
	}()
	var held []byte
	for {
		chunk, ok := <-q
		if !ok {
			zsimrt.Yield("net:s2c:close")
			to.Close()
			return
		}
		rw.pmu.Lock()
		ch := rw.capture[id]
		drop := rw.dropS2C[id]
		rw.pmu.Unlock()
		if drop {
			continue
		}
		if ch != nil {
			// the pump itself asked (SCAN paging): the reply goes to it, not to the client
			held = append(held, chunk...)
			if n, ok := respLen(held, 0); ok {
				rw.pmu.Lock()
				delete(rw.capture, id)
				rw.pmu.Unlock()
				ch <- held[:n]
				held = nil
			}
			continue
		}
		zsimrt.Yield("net:s2c")
		if _, err := to.Write(chunk); err != nil {
			zsimrt.Yield("net:s2c:close")
			from.Close()
			return
		}
	}
}

// respLen: the length of the complete RESP value that starts at b[i].
func respLen(b []byte, i int) (int, bool) {
	j := indexCRLF(b, i)
	if j < 0 {
		return 0, false
	}
	switch b[i] {
	case '+', '-', ':':
		return j + 2, true
	case '$':
		l, err := strconv.Atoi(string(b[i+1 : j]))
		if err != nil {
			return 0, false
		}
		if l < 0 {
			return j + 2, true
		}
		if j+2+l+2 > len(b) {
			return 0, false
		}
		return j + 2 + l + 2, true
	case '*':
		n, err := strconv.Atoi(string(b[i+1 : j]))
		if err != nil {
			return 0, false
		}
		pos := j + 2
		for k := 0; k < n; k++ {
			e, ok := respLen(b, pos)
			if !ok {
				return 0, false
			}
			pos = e
		}
		return pos, true
	}
	return 0, false
}

// scan answers one SCAN command of connection id in pages (see scanPage).
func (rw *redisWorld) scan(id int, cmd []byte, server net.Conn) ([]byte, bool) {
	args := respStrings(cmd)
	if len(args) < 2 {
		return nil, false
	}
	cur, err := strconv.Atoi(args[1])
	if err != nil {
		return nil, false
	}
	if cur == 0 {
		ch := make(chan []byte, 1)
		rw.pmu.Lock()
		rw.capture[id] = ch
		rw.pmu.Unlock()
		rw.syncClock()
		rw.cmds++
		if _, err := server.Write(cmd); err != nil {
			rw.pmu.Lock()
			delete(rw.capture, id)
			rw.pmu.Unlock()
			return nil, false
		}
		full := <-ch
		keys := respStrings(full)
		if len(full) == 0 || full[0] != '*' || len(keys) < 1 {
			return full, true // an error reply: pass it on
		}
		keys = keys[1:] // [0] is the server's cursor ("0")
		var pages [][]string
		for len(keys) > 0 || len(pages) == 0 {
			for k := 0; k < rw.scanEmpty; k++ {
				pages = append(pages, nil)
			}
			n := rw.scanPage
			if n > len(keys) {
				n = len(keys)
			}
			pages = append(pages, keys[:n])
			keys = keys[n:]
		}
		rw.pmu.Lock()
		rw.scans[id] = pages
		rw.pmu.Unlock()
		rw.e.Probe("scan_answered_in_pages")
	}
	rw.pmu.Lock()
	pages := rw.scans[id]
	rw.pmu.Unlock()
	if cur < 0 || cur >= len(pages) {
		return []byte("*2\r\n$1\r\n0\r\n*0\r\n"), true
	}
	next := cur + 1
	if next >= len(pages) {
		next = 0
	}
	// a page is computed when it is asked for: what has gone since the first page is not in it
	rw.syncClock()
	var page []string
	for _, k := range pages[cur] {
		if rw.m.Exists(k) {
			page = append(page, k)
		}
	}
	var sb strings.Builder
	ns := strconv.Itoa(next)
	fmt.Fprintf(&sb, "*2\r\n$%d\r\n%s\r\n*%d\r\n", len(ns), ns, len(page))
	for _, k := range page {
		fmt.Fprintf(&sb, "$%d\r\n%s\r\n", len(k), k)
	}
	return []byte(sb.String()), true
}

// respStrings: the bulk strings of a RESP value, flattened in order.
func respStrings(b []byte) []string {
	var out []string
	for i := 0; i < len(b); {
		j := indexCRLF(b, i)
		if j < 0 {
			break
		}
		if b[i] == '$' {
			l, err := strconv.Atoi(string(b[i+1 : j]))
			if err != nil || l < 0 || j+2+l > len(b) {
				i = j + 2
				continue
			}
			out = append(out, string(b[j+2:j+2+l]))
			i = j + 2 + l + 2
			continue
		}
		i = j + 2
	}
	return out
}

func redisKey(key string) string {
	for len(key) > 0 && key[0] == '/' {
		key = key[1:]
	}
	return fmt.Sprintf("/kvs/%s", key)
}

func (rw *redisWorld) peek(key string) (kvs.Record, bool) {
	rw.syncClock()
	s, err := rw.m.Get(redisKey(key))
	if err != nil {
		return kvs.Record{}, false
	}
	var r golibskvspb.Record
	if err := proto.Unmarshal([]byte(s), &r); err != nil {
		return kvs.Record{}, false
	}
	rec := gredis.ProtoRecord2Record(&r)
	rec.Key = key
	return rec, true
}

func (rw *redisWorld) close() {
	for _, c := range rw.clients {
		if cl, ok := c.(interface{ Close() error }); ok {
			cl.Close()
		}
	}
	for _, c := range rw.conns {
		c.Close()
	}
	synctest.Wait()
	rw.m.Close()
}
