// Package lru is the simulation world for container/lru (C08, C09, C11).
package lru

import (
	"errors"
	"fmt"
	"runtime"
	"sort"
	"strings"
	"time"

	"verifharness/sim"

	glru "github.com/acquirecloud/golibs/container/lru"
	"github.com/acquirecloud/golibs/zsimrt"
	"github.com/anishathalye/porcupine"
)

var errLoader = errors.New("injected: create function failed")

type item struct {
	id  int
	key string
}

func pick[T any](cond bool, a, b T) T {
	if cond {
		return a
	}
	return b
}

// idOf names a value handed out by the cache; 0 stands for the zero value, which no
// create function of this world ever produces.
func idOf(v *item) int {
	if v == nil {
		return 0
	}
	return v.id
}

type ekey struct {
	A string
	B int
}

// The inner key ignores B: ekey{"a",1} and ekey{"a",2} are aliases of one
// entry. An entry is identified by the key it was created with.
func eMap(k ekey) string { return "k:" + k.A }

// cacheAPI hides the three cache flavours.
type cacheAPI interface {
	Get(k string) (int, error)
	Remove(k string) bool
	Clear() int
	State() (resident, inflight int, held bool, nodes, pinned int)
}

type plainCache struct{ c *glru.Cache[string, *item] }

func (p plainCache) Get(k string) (int, error) {
	v, err := p.c.GetOrCreate(k)
	if err != nil {
		return 0, err
	}
	return idOf(v), nil
}
func (p plainCache) Remove(k string) bool { return p.c.Remove(k) }
func (p plainCache) Clear() int           { return p.c.Clear() }
func (p plainCache) State() (int, int, bool, int, int) {
	return glru.VerifState(p.c.ECache)
}

type eCache struct {
	c *glru.ECache[ekey, string, *item]
	w *world
}

func (p eCache) Get(k string) (int, error) {
	v, err := p.c.GetOrCreate(ekey{A: k, B: p.w.variant()})
	if err != nil {
		return 0, err
	}
	return idOf(v), nil
}
func (p eCache) Remove(k string) bool { return p.c.Remove(ekey{A: k, B: p.w.variant()}) }
func (p eCache) Clear() int           { return p.c.Clear() }
func (p eCache) State() (int, int, bool, int, int) {
	return glru.VerifState(p.c)
}

// mkey is a mutable primary key: every caller goroutine owns one and overwrites it
// before each call, like a read buffer that is reused (flavour 3). The cache files
// an entry under the inner key computed when the call was made; what the stored
// primary key says later is the caller's business.
type mkey struct {
	A string
	B int
}

func mMap(k *mkey) string { return "k:" + k.A }

type mCache struct {
	c *glru.ECache[*mkey, string, *item]
	w *world
}

func (p mCache) key(k string) *mkey {
	name := zsimrt.CurrentName()
	b := p.w.keyBuf[name]
	if b == nil {
		b = &mkey{}
		p.w.keyBuf[name] = b
	}
	b.A, b.B = k, p.w.variant()
	return b
}

func (p mCache) Get(k string) (int, error) {
	v, err := p.c.GetOrCreate(p.key(k))
	if err != nil {
		return 0, err
	}
	return idOf(v), nil
}
func (p mCache) Remove(k string) bool { return p.c.Remove(p.key(k)) }
func (p mCache) Clear() int           { return p.c.Clear() }
func (p mCache) State() (int, int, bool, int, int) {
	return glru.VerifState(p.c)
}

type expCache struct {
	c *glru.ExpirableCache[string, glru.ExpirableItem[*item]]
}

func (p expCache) Get(k string) (int, error) {
	v, err := p.c.GetOrCreate(k)
	if err != nil {
		return 0, err
	}
	return idOf(v.Value), nil
}
func (p expCache) Remove(k string) bool { return p.c.Remove(k) }
func (p expCache) Clear() int           { return p.c.Clear() }
func (p expCache) State() (int, int, bool, int, int) {
	return glru.VerifState(p.c.Cache.ECache)
}

// ---------------------------------------------------------------------------

type callRec struct {
	created []int    // ids of the values created during the call
	loads   []string // keys passed to the create function during the call
	deletes []string // "key=id" passed to the delete callback during the call
}

type histOp struct {
	client int
	kind   string
	key    string
	out    lruOut
	call   int64
	ret    int64
}

type lruOut struct {
	res     string // hit / created / failed / removed / absent / cleared
	id      int
	n       int
	evicted string // "key=id,key=id" in callback order
}

// ttl sentinels of the loader plan: absolute expiry instants that no duration reaches
const (
	TTLYear2500 = int64(1)<<62 + 1
	TTLYear9999 = int64(1)<<62 + 2
	TTLZeroTime = int64(1)<<62 + 3
)

type world struct {
	invN    int
	keyBuf  map[string]*mkey
	curOp   string
	delInCR int
	panicAt map[int]bool
	// create functions that panic (seqp): planned "key#attempt"s, and the keys whose creation
	// ended that way (a later call for such a key creates it afresh)
	cpanicAt map[string]bool
	// create functions that end their goroutine (runtime.Goexit)
	cgoexitAt map[string]bool
	noCB      bool
	helperN   int
	poisoned  map[string]bool
	abandon   bool
	c         *sim.Case
	e         *sim.Env
	mode      string
	flavor    int64
	capa      int
	cache     cacheAPI
	nextID    int
	// loader plan: key -> attempt -> fail / ttl
	attempts     map[string]int
	failAt       map[string]bool // "key#attempt"
	ttlFor       map[string]time.Duration
	inProg       map[string]int
	created      map[int]string // id -> key (successful creations)
	deleted      map[int]int
	cur          map[string]*callRec // per goroutine
	tasks        int
	nDone        int
	phase        int
	m            *refLRU
	hist         []histOp
	expiry       map[int]time.Time // id -> expiresAt (flavor 2)
	createdBy    map[int]string    // id -> task whose call created it
	createdPK    map[int]ekey      // ECache flavour: the key the entry was created with
	variants     map[string]int64  // per goroutine: alias variant of the current operation
	retStamp     map[int]int64     // id -> stamp at which the creating call returned
	maxNodesOver int
	loaderSleep  map[string]time.Duration
}

func New(c *sim.Case) (sim.World, error) {
	return &world{c: c, mode: c.Mode, attempts: map[string]int{}, failAt: map[string]bool{}, ttlFor: map[string]time.Duration{}, inProg: map[string]int{},
		created: map[int]string{}, deleted: map[int]int{}, cur: map[string]*callRec{}, expiry: map[int]time.Time{}, createdBy: map[int]string{}, createdPK: map[int]ekey{}, variants: map[string]int64{}, retStamp: map[int]int64{}, loaderSleep: map[string]time.Duration{}}, nil
}

func (w *world) prop() string { return w.c.Prop }

func (w *world) variant() int { return int(w.variants[zsimrt.CurrentName()]) }

func (w *world) rec() *callRec {
	name := zsimrt.CurrentName()
	r := w.cur[name]
	if r == nil {
		r = &callRec{}
		w.cur[name] = r
	}
	return r
}

// load is the create function shared by all flavours.
func (w *world) load(k string) (*item, time.Duration, error) {
	e := w.e
	conc := w.mode == "conc"
	w.rec().loads = append(w.rec().loads, k)
	w.inProg[k]++
	if w.inProg[k] > 1 {
		e.Violate("C09", "single_flight", "two creations for key %q are in progress at the same time", k)
	}
	w.attempts[k]++
	att := w.attempts[k]
	tag := fmt.Sprintf("%s#%d", k, att)
	if conc {
		zsimrt.Yield("loader:enter")
	}
	if d := w.loaderSleep[tag]; d > 0 && (conc || w.flavor == 2) {
		// a creation that takes (simulated) time
		e.Probe("loader_slept")
		zsimrt.Sleep("loader:sleep", d)
	}
	var it *item
	var err error
	if w.failAt[tag] {
		err = errLoader
		if w.cgoexitAt[tag] {
			e.FaultFired("create_function_ended_its_goroutine")
		} else if w.cpanicAt[tag] {
			e.FaultFired("create_function_panicked")
		} else {
			e.FaultFired("create_function_failed")
		}
	} else {
		w.nextID++
		it = &item{id: w.nextID, key: k}
		w.created[it.id] = k
		w.createdBy[it.id] = zsimrt.CurrentName()
		w.rec().created = append(w.rec().created, it.id)
	}
	if conc {
		zsimrt.Yield("loader:exit")
	}
	w.inProg[k]--
	e.Logf("load %s -> %v", tag, err == nil)
	if w.cgoexitAt[tag] {
		runtime.Goexit()
	}
	if w.cpanicAt[tag] {
		// a creation that fails by panicking; the caller recovers
		if w.poisoned == nil {
			w.poisoned = map[string]bool{}
		}
		w.poisoned[k] = true
		panic(cbPanic{})
	}
	return it, w.ttlFor[tag], err
}

func (w *world) onDelete(k string, id int) {
	if w.mode == "conc" {
		// the callback is a scheduling point too (and may be slow): whatever
		// the cache does around it can be interleaved with other callers
		zsimrt.Yield("ondelete:enter")
	}
	w.rec().deletes = append(w.rec().deletes, fmt.Sprintf("%s=%d", k, id))
	w.deleted[id]++
	if w.deleted[id] > 1 {
		w.e.Violate(w.delProp(), "deleted_twice", "the delete callback ran %d times for value #%d of key %q", w.deleted[id], id, k)
	}
	if ck, ok := w.created[id]; id == 0 {
		w.e.Violate(w.delProp(), "delete_wrong_args", "the delete callback got key %q with the zero value, which no create function produced", k)
	} else if !ok || ck != k {
		w.e.Violate(w.delProp(), "delete_wrong_args", "the delete callback got key %q with value #%d, which was created for key %q", k, id, ck)
	}
	if w.mode == "seqp" && (w.curOp == "clear" || w.curOp == "remove") {
		w.delInCR++
		if w.panicAt[w.delInCR] {
			w.e.FaultFired("delete_callback_panicked")
			panic(cbPanic{})
		}
	}
}

func (w *world) delProp() string {
	if w.prop() == "C09" {
		return "C09"
	}
	return "C08"
}

func (w *world) Setup(e *sim.Env) {
	w.e = e
	e.OnPanic = func(name string, v any, stack string) {
		e.Violate(w.prop(), "panic", "panic in %s: %v", name, v)
	}
	w.capa = int(w.c.Knob("capacity", 2))
	w.flavor = w.c.Knob("flavor", 0)
	// a cache built without a delete callback (it is optional): what leaves the cache is not
	// observable then, everything else is judged as usual
	w.noCB = w.c.Knob("no_callback", 0) == 1 && w.flavor != 2
	w.keyBuf = map[string]*mkey{}
	for _, f := range w.c.Faults {
		switch f.Kind {
		case "fail":
			w.failAt[fmt.Sprintf("%s#%d", f.Node, f.Ord)] = true
		case "ttl":
			w.ttlFor[fmt.Sprintf("%s#%d", f.Node, f.Ord)] = time.Duration(f.D)
		case "sleep":
			w.loaderSleep[fmt.Sprintf("%s#%d", f.Node, f.Ord)] = time.Duration(f.D)
		case "cgoexit":
			if w.cgoexitAt == nil {
				w.cgoexitAt = map[string]bool{}
			}
			w.cgoexitAt[fmt.Sprintf("%s#%d", f.Node, f.Ord)] = true
			w.failAt[fmt.Sprintf("%s#%d", f.Node, f.Ord)] = true
		case "cpanic":
			if w.cpanicAt == nil {
				w.cpanicAt = map[string]bool{}
			}
			w.cpanicAt[fmt.Sprintf("%s#%d", f.Node, f.Ord)] = true
			w.failAt[fmt.Sprintf("%s#%d", f.Node, f.Ord)] = true
		case "panic":
			if w.panicAt == nil {
				w.panicAt = map[int]bool{}
			}
			w.panicAt[int(f.Ord)] = true
		}
	}
	var err error
	switch w.flavor {
	case 0:
		var c *glru.Cache[string, *item]
		c, err = glru.NewCache[string, *item](w.capa, func(k string) (*item, error) {
			it, _, err := w.load(k)
			return it, err
		}, pick(w.noCB, nil, func(k string, v *item) { w.onDelete(k, idOf(v)) }))
		w.cache = plainCache{c}
	case 1:
		var c *glru.ECache[ekey, string, *item]
		c, err = glru.NewECache[ekey, string, *item](w.capa, eMap, func(k ekey) (*item, error) {
			it, _, err := w.load(k.A)
			if it != nil {
				w.createdPK[it.id] = k
			}
			return it, err
		}, pick(w.noCB, nil, func(k ekey, v *item) {
			if pk, ok := w.createdPK[idOf(v)]; ok && pk != k {
				e.Violate(w.delProp(), "delete_wrong_args", "the delete callback got key %v for value #%d, but that entry was created with key %v (the caller used an alias that maps to the same inner key)", k, v.id, pk)
			}
			w.onDelete(k.A, idOf(v))
		}))
		w.cache = eCache{c, w}
	case 3:
		var c *glru.ECache[*mkey, string, *item]
		c, err = glru.NewECache[*mkey, string, *item](w.capa, mMap, func(k *mkey) (*item, error) {
			// the create function works on the caller's key object too (say, it canonicalises it in
			// place): the cache filed the entry under the inner key it computed when the call was made
			a := k.A
			k.A = "~" + a
			it, _, err := w.load(a)
			return it, err
		}, pick(w.noCB, nil, func(k *mkey, v *item) {
			// the stored key object has been overwritten since: the entry is identified by its value
			if v == nil {
				w.onDelete(k.A, idOf(v))
				return
			}
			w.onDelete(w.created[v.id], v.id)
		}))
		w.cache = mCache{c, w}
	default:
		var c *glru.ExpirableCache[string, glru.ExpirableItem[*item]]
		c, err = glru.NewExpirableCache[string, glru.ExpirableItem[*item]](w.capa, func(k string) (glru.ExpirableItem[*item], error) {
			// the lifetime of an item counts from the start of its creation
			t0 := time.Now()
			it, ttl, err := w.load(k)
			if err != nil {
				return glru.ExpirableItem[*item]{}, err
			}
			if ttl == 0 {
				ttl = 1000 * time.Hour
			}
			exp := t0.Add(ttl)
			switch int64(ttl) {
			case TTLYear2500:
				exp = time.Date(2500, 1, 1, 0, 0, 0, 0, time.UTC)
			case TTLYear9999:
				exp = time.Date(9999, 12, 31, 23, 59, 59, 0, time.UTC)
			case TTLZeroTime:
				exp = time.Time{} // the zero time: expired since ever
			}
			w.expiry[it.id] = exp
			return glru.NewCacheItem(it, exp), nil
		}, func(k string, v glru.ExpirableItem[*item]) { w.onDelete(k, idOf(v.Value)) })
		w.cache = expCache{c}
	}
	if err != nil {
		e.HarnessError("cache constructor: " + err.Error())
		return
	}
	w.m = newRefLRU(w.capa)
	for ti := range w.c.Tasks {
		t := w.c.Tasks[ti]
		w.tasks++
		idx := ti
		e.Spawn(t.Name, func() { w.runTask(idx, t) }, func(v any, stack string) {
			e.Violate(w.prop(), "panic", "panic in %s: %v", t.Name, v)
		})
	}
}

func (w *world) runTask(idx int, t sim.Task) {
	e := w.e
	for _, op := range t.Ops {
		zsimrt.Yield("task:op")
		w.doOp(idx, t.Name, op)
		e.OpsDone++
		e.Progress()
	}
	w.nDone++
}

// cbPanic is what an injected panic of the delete callback carries.
type cbPanic struct{}

// doOpPanicky (mode "seqp", C11): the delete callback panics at planned
// invocations inside Remove and Clear - the two calls that release the cache
// lock by defer - and the caller recovers, as a caller whose release function
// can fail would. The cache is not compared with the reference LRU here (an
// interrupted Clear has no sequential meaning); what is judged is what C11
// states: nothing but live entries stays reachable, and the capacity bound.
func (w *world) doOpPanicky(name string, op sim.Op) {
	e := w.e
	w.cur[name] = &callRec{}
	w.variants[name] = op.N
	w.curOp = op.K
	res := "done"
	func() {
		defer func() {
			if v := recover(); v != nil {
				if _, ok := v.(cbPanic); !ok {
					panic(v)
				}
				res = "panicked"
				if op.K == "get" && w.poisoned[op.S] {
					e.Probe("call_ended_by_panicking_create_function")
				} else {
					e.Probe("call_ended_by_panicking_delete_callback")
				}
			}
		}()
		switch op.K {
		case "get":
			id, err := w.cache.Get(op.S)
			if err != nil && !errors.Is(err, errLoader) {
				e.Violate(w.prop(), "unexpected_error", "GetOrCreate(%q) returned %v", op.S, err)
			}
			if err == nil && w.created[id] != op.S {
				e.Violate(w.delProp(), "value_never_created", "GetOrCreate(%q) returned value #%d with a nil error, but no create function produced it for that key", op.S, id)
			}
			if err == nil && w.deleted[id] > 0 {
				// "the delete callback runs ... never for a resident one": a value the callback has
				// been given (whether or not the callback returned normally) has left the cache
				e.Violate(w.delProp(), "deleted_value_returned", "GetOrCreate(%q) returned value #%d, which had already been passed to the delete callback: the callback ran for an entry that stayed resident", op.S, id)
			}
		case "remove":
			w.cache.Remove(op.S)
		case "clear":
			w.cache.Clear()
		case "jump":
			zsimrt.Sleep("task:jump", time.Duration(op.D))
		}
	}()
	w.curOp = ""
	e.Logf("%s %s -> %s", name, op.String(), res)
	if _, _, held, _, _ := w.cache.State(); held {
		// an implementation that does not release its lock when a callback panics is
		// unusable afterwards; C11 says nothing about that
		e.Void("the cache lock stayed held after a panicking delete callback: nothing to judge")
		w.abandon = true
		return
	}
	w.checkNodes("after " + op.String() + " (" + res + ")")
}

func (w *world) doOp(idx int, name string, op sim.Op) {
	e := w.e
	if w.mode == "seqp" {
		if !w.abandon {
			w.doOpPanicky(name, op)
		}
		return
	}
	r := &callRec{}
	w.cur[name] = r
	w.variants[name] = op.N
	call := e.Stamp()
	var out lruOut
	switch op.K {
	case "nop":
		return
	case "jump":
		zsimrt.Sleep("task:jump", time.Duration(op.D))
		return
	case "fill":
		// op.N distinct keys S0, S1, ... are put into the cache in one go (set-up of a big
		// population: no scheduling points inside, the bookkeeping of the oracles as usual)
		zsimrt.Unchecked(func() {
			for i := int64(0); i < op.N; i++ {
				if _, err := w.cache.Get(fmt.Sprintf("%s%d", op.S, i)); err != nil {
					e.Violate(w.prop(), "unexpected_error", "GetOrCreate failed while filling: %v", err)
					return
				}
			}
		})
		for _, id := range r.created {
			w.retStamp[id] = e.Stamp()
		}
		e.Logf("%s fill %d -> done", name, op.N)
		return
	case "get":
		now := time.Now()
		var id int
		var err error
		if op.F {
			// bulk filling (big populations): plain calls, no scheduling points inside
			zsimrt.Unchecked(func() { id, err = w.cache.Get(op.S) })
		} else {
			call1 := func() {
				defer func() {
					if v := recover(); v != nil {
						if _, ok := v.(cbPanic); !ok {
							panic(v)
						}
						// the create function panicked and the caller recovered: a failed creation
						e.Probe("call_ended_by_panicking_create_function")
						err = errLoader
					}
				}()
				id, err = w.cache.Get(op.S)
			}
			if len(w.cgoexitAt) == 0 {
				call1()
			} else {
				// some create function of this run ends its goroutine (runtime.Goexit, as t.FailNow
				// does): calls are made from a helper goroutine that the task waits for
				w.helperN++
				hn := fmt.Sprintf("%s.g%d", name, w.helperN)
				w.cur[hn], w.variants[hn] = r, op.N
				done := make(chan struct{})
				returned := false
				e.Spawn(hn, func() {
					defer close(done)
					call1()
					returned = true
				}, func(v any, stack string) {
					e.Violate(w.prop(), "panic", "panic in %s: %v", hn, v)
				})
				zsimrt.Recv("task:join", (<-chan struct{})(done))
				delete(w.cur, hn)
				delete(w.variants, hn)
				if !returned {
					// the goroutine is gone: the creation failed, nothing was returned to anybody
					e.Probe("call_ended_by_goexit_in_create_function")
					err = errLoader
				}
			}
		}
		switch {
		case err != nil && errors.Is(err, errLoader):
			out = lruOut{res: "failed"}
		case err != nil:
			e.Violate(w.prop(), "unexpected_error", "GetOrCreate(%q) returned %v", op.S, err)
			return
		case len(r.loads) == 0:
			out = lruOut{res: "hit", id: id}
		default:
			out = lruOut{res: "created", id: id}
		}
		out.evicted = strings.Join(r.deletes, ",")
		if w.mode == "seq" {
			w.checkSeqGet(op.S, now, id, err, r)
		}
	case "remove":
		ok := w.cache.Remove(op.S)
		out = lruOut{res: "absent"}
		if ok {
			out.res = "removed"
		}
		out.evicted = strings.Join(r.deletes, ",")
		if w.mode == "seq" {
			w.checkSeq("Remove("+op.S+")", w.m.remove(op.S), seqObs{ok: ok, loads: r.loads, deletes: r.deletes})
		}
	case "clear":
		n := w.cache.Clear()
		out = lruOut{res: "cleared", n: n, evicted: strings.Join(r.deletes, ",")}
		if w.mode == "seq" {
			w.checkSeq("Clear()", w.m.clear(), seqObs{n: n, loads: r.loads, deletes: r.deletes})
		}
	}
	ret := e.Stamp()
	for _, id := range r.created {
		if _, done := w.retStamp[id]; !done {
			w.retStamp[id] = ret
		}
	}
	if op.K == "clear" && w.mode == "conc" {
		// every value whose creating call had returned before this Clear was
		// invoked has left the cache by now: its delete callback must have run
		ids := make([]int, 0, len(w.retStamp))
		for id := range w.retStamp {
			ids = append(ids, id)
		}
		sort.Ints(ids)
		for _, id := range ids {
			if w.retStamp[id] < call && w.deleted[id] == 0 && !w.noCB {
				e.Violate("C09", "cleared_but_not_deleted", "Clear() returned, but value #%d of key %q (created by a call that had returned before Clear was invoked) has not been passed to the delete callback yet", id, w.created[id])
				break
			}
		}
	}
	e.Logf("%s %s -> %s id=%d n=%d del=[%s] loads=%v", name, op.String(), out.res, out.id, out.n, out.evicted, r.loads)
	if w.mode == "conc" {
		w.hist = append(w.hist, histOp{client: idx, kind: op.K, key: op.S, out: out, call: call, ret: e.Stamp()})
	}
	if w.mode == "seq" {
		w.checkNodes("after " + op.String())
	}
}

// checkNodes: C11 invariant at a quiescent point with the cache lock free.
func (w *world) checkNodes(when string) {
	resident, _, held, nodes, pinned := w.cache.State()
	if held {
		return
	}
	if resident > w.capa {
		p := "C09"
		if w.prop() == "C11" {
			p = "C11" // "an LRU cache holds at most its capacity (plus a constant)"
		}
		w.e.Violate(p, "over_capacity", "%d values are resident, the capacity is %d (%s)", resident, w.capa, when)
	}
	if w.prop() != "C11" {
		return
	}
	if pinned != 0 {
		w.e.Probe("pinned_nodes_without_open_iterator")
	}
	if nodes < 0 {
		// the cache does not keep its entries in an iterable.Map list: nothing this oracle can walk
		w.e.Probe("recency_list_not_inspectable")
		return
	}
	if nodes != resident+1 {
		w.e.Violate("C11", "retained_entries", "%s: the cache holds %d live entries but %d list nodes are reachable from the head (expected %d) and %d of them are pinned by a reference count: removed entries are retained", when, resident, nodes, resident+1, pinned)
	}
}

func (w *world) Invariant(e *sim.Env) {
	if w.cache == nil || w.mode != "conc" {
		return
	}
	if w.c.Knob("big", 0) == 1 {
		// thousands of entries: walking the list between any two steps would dominate the run
		w.invN++
		if w.invN%8192 != 0 {
			return
		}
	}
	w.checkNodes("between steps, cache lock free")
}

func (w *world) Idle(e *sim.Env) {}

// Quiet: create functions sleep at most milliseconds here, so hours of
// simulated time without any goroutine moving while calls are outstanding is a
// deadlock (e.g. an in-flight entry that is never released).
func (w *world) Quiet(e *sim.Env) bool {
	prop := w.prop()
	if prop == "C11" {
		prop = "C09"
	}
	e.Violate(prop, "stuck", "cache calls are outstanding but no goroutine can run any more: %s", strings.Join(e.RT.All(), "; "))
	return true
}

func (w *world) Finished(e *sim.Env) bool {
	if w.nDone < w.tasks {
		return false
	}
	if w.abandon {
		return true
	}
	switch w.phase {
	case 0:
		w.phase = 1
		e.Spawn("zepi", func() {
			// final Clear at quiescence: every created value must have been deleted exactly once
			w.cur["zepi"] = &callRec{}
			w.cache.Clear()
			ids := make([]int, 0, len(w.created))
			for id := range w.created {
				ids = append(ids, id)
			}
			sort.Ints(ids)
			for _, id := range ids {
				if w.mode == "seqp" {
					// after a delete callback has panicked inside Clear, whether the entries behind it
					// stay resident (and get their callback later) or are dropped is not something the
					// property's "create functions that fail" quantifier settles: only the unambiguous
					// clauses are judged in this mode (never twice, never for an entry that stays)
					break
				}
				if w.noCB {
					break
				}
				if w.deleted[id] != 1 {
					e.Violate(w.delProp(), "delete_count", "value #%d of key %q was created successfully but the delete callback ran %d times for it by the time the cache was cleared", id, w.created[id], w.deleted[id])
					break
				}
			}
			w.checkNodes("after the final Clear")
			if _, infl, _, _, _ := w.cache.State(); infl != 0 {
				ip := w.delProp()
				if w.prop() == "C11" {
					ip = "C11" // a record kept for a creation that is over is retained state
				}
				e.Violate(ip, "inflight_left", "no call is in progress but the in-flight table still has %d entries: a creation slot was left behind (the next caller of that key waits for a creation nobody runs)", infl)
			}
			w.phase = 2
		}, nil)
		return false
	case 1:
		return false
	}
	return true
}

func (w *world) Teardown(e *sim.Env) {}

// ---------------------------------------------------------------------------
// linearizability against the sequential LRU (C09 oracle 4)

type linState struct {
	order string // "k=id,k=id" LRU -> MRU
}

type linIn struct {
	kind, key string
}

func parseOrder(s string) []string {
	if s == "" {
		return nil
	}
	return strings.Split(s, ",")
}

func (w *world) linStep(st linState, in linIn, out lruOut) (bool, linState) {
	ents := parseOrder(st.order)
	find := func(k string) int {
		for i, e := range ents {
			if strings.HasPrefix(e, k+"=") {
				return i
			}
		}
		return -1
	}
	switch in.kind {
	case "get":
		i := find(in.key)
		switch out.res {
		case "hit":
			if i < 0 || ents[i] != fmt.Sprintf("%s=%d", in.key, out.id) || out.evicted != "" {
				return false, st
			}
			e := ents[i]
			ents = append(append([]string{}, ents[:i]...), ents[i+1:]...)
			ents = append(ents, e)
			return true, linState{strings.Join(ents, ",")}
		case "failed":
			return i < 0 && out.evicted == "", st
		case "created":
			if i >= 0 {
				return false, st
			}
			ents = append(append([]string{}, ents...), fmt.Sprintf("%s=%d", in.key, out.id))
			want := ""
			if len(ents) > w.capa {
				want = ents[0]
				ents = ents[1:]
			}
			if out.evicted != want && !w.noCB {
				return false, st
			}
			return true, linState{strings.Join(ents, ",")}
		}
		return false, st
	case "remove":
		i := find(in.key)
		if out.res == "absent" {
			return i < 0 && out.evicted == "", st
		}
		if i < 0 || (out.evicted != ents[i] && !w.noCB) {
			return false, st
		}
		ents = append(append([]string{}, ents[:i]...), ents[i+1:]...)
		return true, linState{strings.Join(ents, ",")}
	case "clear":
		if out.n != len(ents) {
			return false, st
		}
		// callbacks for every entry (order not prescribed)
		a := parseOrder(out.evicted)
		b := append([]string{}, ents...)
		sort.Strings(a)
		sort.Strings(b)
		if strings.Join(a, ",") != strings.Join(b, ",") && !w.noCB {
			return false, st
		}
		return true, linState{}
	}
	return false, st
}

func (w *world) Post(res *sim.Result) {
	if w.mode != "conc" || len(res.Violations) > 0 || res.HarnessError != "" || res.Inconclusive != "" || w.flavor == 2 || w.c.Knob("big", 0) == 1 {
		return
	}
	model := porcupine.Model{
		Init: func() interface{} { return linState{} },
		Step: func(state, input, output interface{}) (bool, interface{}) {
			ok, ns := w.linStep(state.(linState), input.(linIn), output.(lruOut))
			return ok, ns
		},
		Equal: func(a, b interface{}) bool { return a.(linState) == b.(linState) },
	}
	var ops []porcupine.Operation
	for _, h := range w.hist {
		ops = append(ops, porcupine.Operation{ClientId: h.client, Input: linIn{h.kind, h.key}, Call: h.call, Output: h.out, Return: h.ret})
	}
	switch porcupine.CheckOperationsTimeout(model, ops, 20*time.Second) {
	case porcupine.Illegal:
		var lines []string
		for _, h := range w.hist {
			lines = append(lines, fmt.Sprintf("c%d [%d,%d] %s(%s) -> %s id=%d n=%d evicted=[%s]", h.client, h.call, h.ret, h.kind, h.key, h.out.res, h.out.id, h.out.n, h.out.evicted))
		}
		res.Violations = append(res.Violations, sim.Violation{Prop: "C09", Oracle: "not_linearizable", Msg: fmt.Sprintf("capacity %d: the history is not equivalent to any sequential LRU history with the same results and evictions: %s", w.capa, strings.Join(lines, "; "))})
	case porcupine.Unknown:
		if res.Inconclusive == "" {
			res.Inconclusive = "linearizability check timed out"
		}
	default:
		res.Probes["histories_checked"]++
	}
}
