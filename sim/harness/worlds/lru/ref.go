package lru

import (
	"fmt"
	"os"
	"strings"
	"time"

	"verifharness/sim"
)

// refLRU is the reference LRU of the configured capacity (C08).
type refEnt struct {
	key string
	id  int
}

type refLRU struct {
	capa int
	ents []refEnt // LRU -> MRU
}

func newRefLRU(capa int) *refLRU { return &refLRU{capa: capa} }

func (m *refLRU) find(k string) int {
	for i, e := range m.ents {
		if e.key == k {
			return i
		}
	}
	return -1
}

type seqExp struct {
	ok      bool
	n       int
	deletes []string
}

type seqObs struct {
	ok      bool
	n       int
	loads   []string
	deletes []string
}

func (m *refLRU) remove(k string) seqExp {
	i := m.find(k)
	if i < 0 {
		return seqExp{}
	}
	e := m.ents[i]
	m.ents = append(m.ents[:i], m.ents[i+1:]...)
	return seqExp{ok: true, deletes: []string{fmt.Sprintf("%s=%d", e.key, e.id)}}
}

func (m *refLRU) clear() seqExp {
	var d []string
	for _, e := range m.ents {
		d = append(d, fmt.Sprintf("%s=%d", e.key, e.id))
	}
	n := len(m.ents)
	m.ents = nil
	return seqExp{ok: true, n: n, deletes: d}
}

func sameMultiset(a, b []string) bool {
	if len(a) != len(b) {
		return false
	}
	c := map[string]int{}
	for _, x := range a {
		c[x]++
	}
	for _, x := range b {
		c[x]--
		if c[x] < 0 {
			return false
		}
	}
	return true
}

func (w *world) checkSeq(what string, exp seqExp, obs seqObs) {
	e := w.e
	if len(obs.loads) != 0 {
		e.Violate("C08", "create_called", "%s called the create function for %v", what, obs.loads)
		return
	}
	if strings.HasPrefix(what, "Remove") && exp.ok != obs.ok {
		e.Violate("C08", "wrong_result", "%s returned %v, the reference LRU says %v", what, obs.ok, exp.ok)
		return
	}
	if strings.HasPrefix(what, "Clear") && exp.n != obs.n {
		e.Violate("C08", "wrong_result", "%s returned %d, the reference LRU holds %d entries", what, obs.n, exp.n)
		return
	}
	if !w.noCB && !sameMultiset(exp.deletes, obs.deletes) {
		e.Violate("C08", "delete_callback", "%s: the delete callback ran for %v, the reference LRU expects %v", what, obs.deletes, exp.deletes)
	}
}

// checkSeqGet replays GetOrCreate on the reference model, flavour-aware.
func (w *world) checkSeqGet(k string, now time.Time, id int, err error, r *callRec) {
	e := w.e
	m := w.m
	what := fmt.Sprintf("GetOrCreate(%q)", k)
	var expLoads, expDel []string
	expErr := false
	expID := 0
	// the ids created during this call, in order
	var newIDs []int
	for i := w.nextID - countCreated(w, r, k) + 1; i <= w.nextID; i++ {
		newIDs = append(newIDs, i)
	}
	ni := 0
	att := w.attempts[k] - len(r.loads)
	inner := func() bool { // plain Cache.GetOrCreate; returns false if it failed
		if i := m.find(k); i >= 0 {
			ent := m.ents[i]
			m.ents = append(m.ents[:i], m.ents[i+1:]...)
			m.ents = append(m.ents, ent)
			expID = ent.id
			return true
		}
		expLoads = append(expLoads, k)
		att++
		if w.failAt[fmt.Sprintf("%s#%d", k, att)] {
			expErr = true
			return false
		}
		nid := -1
		if ni < len(newIDs) {
			nid = newIDs[ni]
		}
		ni++
		m.ents = append(m.ents, refEnt{k, nid})
		expID = nid
		if len(m.ents) > m.capa {
			ev := m.ents[0]
			m.ents = m.ents[1:]
			expDel = append(expDel, fmt.Sprintf("%s=%d", ev.key, ev.id))
		}
		return true
	}
	if inner() && w.flavor == 2 {
		if exp, ok := w.expiry[expID]; ok && exp.Before(now) {
			// expired: removed and created again
			x := m.remove(k)
			expDel = append(expDel, x.deletes...)
			e.Probe("expired_item_replaced")
			inner()
		}
	}
	if !sameSeq(expLoads, r.loads) {
		e.Violate("C08", "create_calls", "%s called the create function for %v, the reference LRU expects %v (resident keys before the call matter: a resident key must not be created again, a miss is created exactly once)", what, r.loads, expLoads)
		return
	}
	if expErr != (err != nil) {
		e.Violate("C08", "wrong_result", "%s returned error=%v, expected failure=%v", what, err, expErr)
		return
	}
	if !expErr && id != expID {
		e.Violate("C08", "wrong_value", "%s returned value #%d, the reference LRU holds value #%d for that key", what, id, expID)
		return
	}
	if !w.noCB && !sameMultiset(expDel, r.deletes) {
		e.Violate("C08", "delete_callback", "%s: the delete callback ran for %v, the reference LRU (capacity %d) expects %v", what, r.deletes, m.capa, expDel)
	}
}

func sameSeq(a, b []string) bool {
	if len(a) != len(b) {
		return false
	}
	for i := range a {
		if a[i] != b[i] {
			return false
		}
	}
	return true
}

// countCreated: how many values were successfully created during this call.
func countCreated(w *world, r *callRec, k string) int {
	n := 0
	att := w.attempts[k] - len(r.loads)
	for range r.loads {
		att++
		if !w.failAt[fmt.Sprintf("%s#%d", k, att)] {
			n++
		}
	}
	return n
}

// ---------------------------------------------------------------------------
// Generation

func Generate(r *sim.Rng, prop, tier string, idx int) *sim.Case {
	c := &sim.Case{World: "lru", Prop: prop, Knobs: map[string]int64{}}
	c.Sched = sim.SchedCfg{F: sim.Pick(r, 16, 64, 256), MaxJitter: sim.Pick(r, int64(10), int64(1000)), StickyPct: sim.Pick(r, 0, 30, 70, 90), MaxSteps: 3000000, HorizonNs: int64(10 * time.Hour)}
	if r.Chance(1, 4) {
		c.Sched.PCTDepth = 2 + r.Intn(4)
		c.Sched.PCTLen = 200
	}
	mode := "seq"
	switch prop {
	case "C09":
		mode = "conc"
	case "C11":
		mode = sim.Pick(r, "seq", "seq", "conc")
	}
	if (prop == "C11" && mode == "seq" && r.Chance(1, 5)) || (prop == "C08" && r.Chance(1, 8)) {
		mode = "seqp" // delete callbacks that panic inside Remove/Clear, recovered by the caller
	}
	c.Mode = mode
	keys := []string{"a", "b", "c", "d", "e", "f"}
	if mode == "conc" {
		genConc(r, c, keys)
		if r.Chance(1, 8) {
			c.Knobs["no_callback"] = 1 // the delete callback is optional
		}
		return c
	}
	if prop == "C11" && mode == "seq" && r.Chance(1, 12) {
		// a big population: more than a thousand live entries, filled and cleared a few times
		// (what a cache does per entry it may do differently per thousand)
		genBigPop(r, c, tier)
		return c
	}
	capa := int64(sim.Pick(r, 1, 2, 3, 4, 64))
	if prop == "C11" {
		capa = int64(1 + r.Intn(8))
	}
	if r.Chance(1, 10) && !noHuge {
		capa = hugeCapacity(r)
	}
	c.Knobs["capacity"] = capa
	c.Knobs["flavor"] = int64(r.Intn(4))
	nk := 2 + r.Intn(5)
	keys = keys[:nk]
	n := 4 + r.Intn(20)
	if prop == "C11" && r.Chance(1, 6) {
		// long-history mode
		n = 1000 + r.Intn(3000)
		if tier == "thorough" {
			n = 10000 + r.Intn(40000)
		}
	}
	task := sim.Task{Name: "t0"}
	for i := 0; i < n; i++ {
		k := keys[r.Intn(len(keys))]
		switch r.Intn(12) {
		case 0, 1:
			task.Ops = append(task.Ops, sim.Op{K: "remove", S: k})
		case 2:
			task.Ops = append(task.Ops, sim.Op{K: "clear"})
		case 3:
			if c.Knobs["flavor"] == 2 {
				task.Ops = append(task.Ops, sim.Op{K: "jump", D: int64(sim.Pick(r, 3*time.Millisecond, 30*time.Millisecond, 300*time.Millisecond, 7*time.Second))})
			} else {
				task.Ops = append(task.Ops, sim.Op{K: "get", S: k})
			}
		default:
			task.Ops = append(task.Ops, sim.Op{K: "get", S: k})
		}
		if c.Knobs["flavor"] == 1 || c.Knobs["flavor"] == 3 {
			// ECache: address the entry through one of three aliases
			task.Ops[len(task.Ops)-1].N = int64(r.Intn(3))
		}
	}
	c.Tasks = []sim.Task{task}
	if mode == "seqp" {
		// which invocations of the delete callback from inside Remove/Clear panic
		for ord := 1; ord <= 3*n/4+2 && ord < 400; ord++ {
			if r.Chance(1, 4) {
				c.Faults = append(c.Faults, sim.Fault{Seam: "ondelete", Kind: "panic", Ord: int64(ord)})
			}
		}
	}
	// loader plan
	goexit := r.Chance(1, 6) || (prop == "C11" && r.Chance(1, 3)) // this run has create functions that end their goroutine
	for _, k := range keys {
		for att := 1; att <= 6; att++ {
			if r.Chance(1, 7) {
				// some creations fail by panicking (the caller recovers) or by ending their goroutine
				kind := sim.Pick(r, "fail", "fail", "cpanic")
				if goexit && mode == "seq" && kind == "cpanic" && r.Chance(1, 2) {
					kind = "cgoexit"
				}
				c.Faults = append(c.Faults, sim.Fault{Seam: "loader", Kind: kind, Node: k, Ord: int64(att)})
			}
			if c.Knobs["flavor"] == 2 && r.Chance(1, 4) {
				// a slow creation: the item may be past its expiry by the time it is handed out
				// (it is still the value of this call; staleness is judged at the start of a call)
				c.Faults = append(c.Faults, sim.Fault{Seam: "loader", Kind: "sleep", Node: k, Ord: int64(att), D: int64(sim.Pick(r, time.Millisecond, 20*time.Millisecond, 150*time.Millisecond, 2*time.Second))})
			}
			if c.Knobs["flavor"] == 2 && r.Chance(1, 2) {
				c.Faults = append(c.Faults, sim.Fault{Seam: "loader", Kind: "ttl", Node: k, Ord: int64(att), D: int64(sim.Pick(r, 10*time.Millisecond, 100*time.Millisecond, time.Second, -time.Millisecond, time.Duration(TTLYear2500), time.Duration(TTLYear9999), time.Duration(TTLZeroTime), 290*365*24*time.Hour))})
			}
		}
	}
	if mode == "seq" && r.Chance(1, 8) {
		c.Knobs["no_callback"] = 1 // the delete callback is optional
	}
	return c
}

func genBigPop(r *sim.Rng, c *sim.Case, tier string) {
	capa := sim.Pick(r, 1024, 1025, 1500, 2048, 2500)
	c.Knobs["capacity"] = int64(capa)
	c.Knobs["flavor"] = int64(sim.Pick(r, 0, 1, 3))
	c.Sched.MaxSteps = 6000000
	task := sim.Task{Name: "t0"}
	next := 0
	rounds := 2 + r.Intn(2)
	for round := 0; round < rounds; round++ {
		fill := capa - r.Intn(3) + sim.Pick(r, 0, 0, 40)
		if r.Chance(1, 3) {
			fill = 1024 * (1 + r.Intn(2)) // an exact multiple of a round number
			if fill > capa {
				fill = capa
			}
		}
		for i := 0; i < fill; i++ {
			task.Ops = append(task.Ops, sim.Op{K: "get", S: fmt.Sprintf("k%d", next)})
			next++
		}
		task.Ops = append(task.Ops, sim.Op{K: "clear"})
		for i := 0; i < 5+r.Intn(10); i++ {
			task.Ops = append(task.Ops, sim.Op{K: sim.Pick(r, "get", "get", "remove"), S: fmt.Sprintf("k%d", next-1-r.Intn(12))})
		}
	}
	c.Tasks = []sim.Task{task}
}

// noHuge (environment DSIM_NOHUGE=1) leaves the astronomically large capacities out:
// an implementation that sizes its tables to the capacity up front cannot be
// constructed with them (the worker dies of memory exhaustion, which the driver
// reports as trouble, not as a verdict); with the switch such a tree can still be checked.
var noHuge = os.Getenv("DSIM_NOHUGE") != ""

// hugeCapacity: "and larger" - capacities nothing ever reaches, chosen around
// the powers of two where a narrower integer type would wrap.
func hugeCapacity(r *sim.Rng) int64 {
	return sim.Pick(r, int64(1)<<31-1, int64(1)<<31, int64(1)<<31+1, int64(1)<<32, int64(1)<<32+1, int64(1)<<32+2, int64(1)<<40+1, int64(^uint64(0)>>1))
}

// genBigConc: a cache with many thousands of resident entries, a creation that is slow,
// and Clear / Remove / other misses running meanwhile. Too long for the history checker;
// the ledger (every created value deleted exactly once, none twice, none while resident),
// single-flight and capacity oracles judge it.
func genBigConc(r *sim.Rng, c *sim.Case) {
	n := sim.Pick(r, 16384, 16385, 17000, 20000)
	c.Knobs["capacity"] = int64(n + sim.Pick(r, 0, 1, 5000))
	c.Knobs["flavor"] = int64(sim.Pick(r, 0, 1))
	c.Knobs["big"] = 1
	c.Sched.MaxSteps = 12000000
	c.Sched.Dense = false
	fill := sim.Task{Name: "t0", Ops: []sim.Op{{K: "fill", S: "k", N: int64(n)}}}
	c.Tasks = append(c.Tasks, fill)
	// the others start when the cache is full (simulated time passes only when everybody waits)
	wait := int64(time.Second)
	tA := sim.Task{Name: "t1", Ops: []sim.Op{{K: "jump", D: wait}, {K: "get", S: "x1"}, {K: "get", S: "x1"}, {K: "get", S: "k1"}}}
	tB := sim.Task{Name: "t2", Ops: []sim.Op{{K: "jump", D: wait + int64(time.Microsecond)}, {K: sim.Pick(r, "clear", "clear", "remove"), S: "x1"}, {K: "get", S: "x2"}, {K: "clear"}}}
	c.Tasks = append(c.Tasks, tA, tB)
	for _, k := range []string{"x1", "x2"} {
		c.Faults = append(c.Faults, sim.Fault{Seam: "loader", Kind: "sleep", Node: k, Ord: 1, D: int64(sim.Pick(r, time.Millisecond, 10*time.Millisecond))})
	}
	if c.Knobs["flavor"] == 1 {
		for ti := range c.Tasks {
			for oi := range c.Tasks[ti].Ops {
				c.Tasks[ti].Ops[oi].N = int64(r.Intn(3))
			}
		}
	}
}

func genConc(r *sim.Rng, c *sim.Case, keys []string) {
	if c.Prop == "C09" && r.Chance(1, 300) {
		genBigConc(r, c)
		return
	}
	c.Knobs["capacity"] = int64(1 + r.Intn(3))
	if r.Chance(1, 12) && !noHuge {
		c.Knobs["capacity"] = hugeCapacity(r)
	}
	c.Knobs["flavor"] = int64(sim.Pick(r, 0, 1, 1, 3))
	if r.Chance(1, 6) {
		// ExpirableCache under concurrency: its GetOrCreate is three cache calls, so
		// the history is not checked against the sequential LRU; the single-flight,
		// capacity and delete-ledger oracles still apply
		c.Knobs["flavor"] = 2
	}
	nk := 2 + r.Intn(3)
	keys = keys[:nk]
	nt := 2 + r.Intn(3)
	extra := 0
	if c.Prop != "" && r.Chance(1, 5) {
		extra = 4 // longer programs now and then (histories stay short enough for porcupine)
	}
	for t := 0; t < nt; t++ {
		task := sim.Task{Name: fmt.Sprintf("t%d", t)}
		n := 3 + r.Intn(4) + r.Intn(extra+1)
		for i := 0; i < n; i++ {
			k := keys[r.Intn(len(keys))]
			switch r.Intn(10) {
			case 0, 1:
				task.Ops = append(task.Ops, sim.Op{K: "remove", S: k})
			case 2:
				task.Ops = append(task.Ops, sim.Op{K: "clear"})
			default:
				task.Ops = append(task.Ops, sim.Op{K: "get", S: k})
			}
			if c.Knobs["flavor"] == 1 || c.Knobs["flavor"] == 3 {
				task.Ops[len(task.Ops)-1].N = int64(r.Intn(3))
			}
		}
		c.Tasks = append(c.Tasks, task)
	}
	goexit := r.Chance(1, 6) || (c.Prop == "C11" && r.Chance(1, 3)) // this run has create functions that end their goroutine
	for _, k := range keys {
		for att := 1; att <= 8; att++ {
			if r.Chance(1, 6) {
				// some creations fail by panicking or by ending their goroutine: their waiters must be
				// released all the same
				kind := sim.Pick(r, "fail", "fail", "cpanic")
				if goexit && kind == "cpanic" && r.Chance(1, 2) {
					kind = "cgoexit"
				}
				c.Faults = append(c.Faults, sim.Fault{Seam: "loader", Kind: kind, Node: k, Ord: int64(att)})
			}
			if r.Chance(1, 5) {
				c.Faults = append(c.Faults, sim.Fault{Seam: "loader", Kind: "sleep", Node: k, Ord: int64(att), D: int64(sim.Pick(r, time.Microsecond, time.Millisecond))})
			}
			if c.Knobs["flavor"] == 2 && r.Chance(1, 2) {
				c.Faults = append(c.Faults, sim.Fault{Seam: "loader", Kind: "ttl", Node: k, Ord: int64(att), D: int64(sim.Pick(r, time.Microsecond, 500*time.Microsecond, time.Second, -time.Millisecond, -time.Millisecond, time.Duration(TTLZeroTime)))})
			}
		}
	}
}
