// Package blocks is the simulation world for container/bytes.Blocks (C17).
package blocks

import (
	stderrors "errors"
	"fmt"
	"os"
	"path/filepath"
	"sort"
	"strconv"
	"strings"
	"time"
	"unsafe"

	"verifharness/sim"

	gbytes "github.com/acquirecloud/golibs/container/bytes"
	"github.com/acquirecloud/golibs/errors"
	"github.com/acquirecloud/golibs/files"
	"github.com/acquirecloud/golibs/zsimrt"
	"github.com/anishathalye/porcupine"
)

var errDisk = stderrors.New("injected: buffer I/O error")

// simBuffer is the simulated disk: a byte slice behind the Buffer interface.
type simBuffer struct {
	w      *world
	b      []byte
	calls  int64
	closed bool
	plain  bool // snapshot copies: no yields, no faults
}

func (s *simBuffer) Close() error { s.closed = true; return nil }
func (s *simBuffer) Size() int64  { return int64(len(s.b)) }
func (s *simBuffer) Grow(n int64) error {
	if n < int64(len(s.b)) {
		return fmt.Errorf("cannot shrink")
	}
	nb := make([]byte, n)
	copy(nb, s.b)
	s.b = nb
	return nil
}
func (s *simBuffer) Buffer(offs int64, size int) ([]byte, error) {
	if !s.plain {
		zsimrt.Yield("disk:buffer")
		s.calls++
		if s.w.bufFault[s.calls] {
			s.w.e.FaultFired("buffer_io_error")
			s.w.faultIn[zsimrt.CurrentName()] = true
			return nil, errDisk
		}
	}
	if offs < 0 || offs >= int64(len(s.b)) {
		return nil, fmt.Errorf("offs=%d out of bounds: %w", offs, errors.ErrInvalid)
	}
	if offs+int64(size) > int64(len(s.b)) {
		size = int(int64(len(s.b)) - offs)
	}
	return s.b[offs : offs+int64(size)], nil
}
func (s *simBuffer) String() string { return fmt.Sprintf("simBuffer{%d}", len(s.b)) }

// yieldBuf wraps a real MMFile with a scheduling point and the fault plan.
type yieldBuf struct {
	w     *world
	in    *files.MMFile
	calls int64
}

func (y *yieldBuf) Close() error       { return y.in.Close() }
func (y *yieldBuf) Size() int64        { return y.in.Size() }
func (y *yieldBuf) Grow(n int64) error { return y.in.Grow(n) }
func (y *yieldBuf) Buffer(offs int64, size int) ([]byte, error) {
	zsimrt.Yield("disk:buffer")
	y.calls++
	if y.w.bufFault[y.calls] {
		y.w.e.FaultFired("buffer_io_error")
		y.w.faultIn[zsimrt.CurrentName()] = true
		return nil, errDisk
	}
	return y.in.Buffer(offs, size)
}
func (y *yieldBuf) String() string { return y.in.String() }

type histOp struct {
	client int
	kind   string
	idx    int
	out    string // arrange: "ok:<i>" | "exhausted" | "fault"; free: "ok" | "error" | "fault"
	call   int64
	ret    int64
}

// abk is the harness' record of one allocation.
type abk struct {
	owner   int
	serial  int
	tag     byte
	tagged  bool
	busy    bool // its owner is working on it right now
	claimed bool // somebody is freeing it
}

type inflight struct {
	kind string
	idx  int
}

type world struct {
	c        *sim.Case
	e        *sim.Env
	bs       int
	segs     int
	extra    int
	fit      bool
	disk     int64
	size     int64
	buf      gbytes.Buffer
	sb       *simBuffer
	mm       *files.MMFile
	dir      string
	bks      *gbytes.Blocks
	valid    bool
	expCount int
	bufFault map[int64]bool
	faultIn  map[string]bool
	// model
	alloc   map[int]*abk // idx -> allocation record
	serial  int
	arrLock zsimrt.RWMutex // arranges (R) vs frees that expect an error (W)
	inFl    map[string]inflight
	hist    []histOp
	tasks   int
	nDone   int
	phase   int
	ctorErr error
	snaps   int
}

func New(c *sim.Case) (sim.World, error) {
	return &world{c: c, bufFault: map[int64]bool{}, faultIn: map[string]bool{}, alloc: map[int]*abk{}, inFl: map[string]inflight{}}, nil
}

func validGeometry(bs int) bool {
	if bs <= 0 {
		return false
	}
	ps := os.Getpagesize()
	if bs < ps {
		return bs&(bs-1) == 0
	}
	return bs%ps == 0
}

func (w *world) Setup(e *sim.Env) {
	w.e = e
	e.OnPanic = func(name string, v any, stack string) {
		e.Violate("C17", "panic", "panic in %s: %v", name, v)
	}
	w.bs = int(w.c.Knob("bs", 8))
	w.segs = int(w.c.Knob("segments", 1))
	w.extra = int(w.c.Knob("extra", 0))
	w.fit = w.c.Knob("fit", 1) == 1
	w.disk = w.c.Knob("disk", 0)
	for _, f := range w.c.Faults {
		if f.Seam == "buffer" {
			w.bufFault[f.Ord] = true
		}
	}
	w.valid = validGeometry(w.bs)
	segBytes := int64(0)
	if w.valid {
		segBytes = int64(8*w.bs+1) * int64(w.bs)
		w.size = segBytes*int64(w.segs) + int64(w.extra)
		w.expCount = w.segs * 8 * w.bs
		if w.extra > 0 && int64(w.extra) >= segBytes {
			w.expCount = int(w.size/segBytes) * 8 * w.bs
		}
	} else {
		w.size = int64(w.c.Knob("raw_size", 4096))
	}
	if w.disk == 1 {
		// real memory-mapped file; its size must be a multiple of 4096
		w.size = (w.size + 4095) / 4096 * 4096
		if w.valid {
			w.expCount = int(w.size/segBytes) * 8 * w.bs
		}
		dir, err := os.MkdirTemp(".", "mm")
		if err != nil {
			e.HarnessError("mkdtemp: " + err.Error())
			return
		}
		w.dir = dir
		mm, err := files.NewMMFile(filepath.Join(dir, "blocks.dat"), w.size)
		if err != nil {
			e.HarnessError("mmfile: " + err.Error())
			return
		}
		w.mm = mm
		w.buf = &yieldBuf{w: w, in: mm}
		if w.valid && w.size%segBytes != 0 {
			w.fit = false
		}
	} else {
		w.sb = &simBuffer{w: w, b: make([]byte, w.size)}
		w.buf = w.sb
	}
	// constructor (C17 oracle 5)
	func() {
		defer func() {
			if r := recover(); r != nil {
				e.Violate("C17", "constructor_panic", "NewBlocks(bs=%d, size=%d, fit=%v) panicked: %v", w.bs, w.size, w.fit, r)
			}
		}()
		// the constructor runs on the root goroutine: no faults/yields yet
		saved := w.bufFault
		w.bufFault = map[int64]bool{}
		w.bks, w.ctorErr = gbytes.NewBlocks(w.bs, w.buf, w.fit)
		w.bufFault = saved
		if w.sb != nil {
			w.sb.calls = 0
		}
	}()
	if len(e.Res.Violations) > 0 {
		return
	}
	e.Logf("NewBlocks(bs=%d,size=%d,fit=%v) -> err=%v", w.bs, w.size, w.fit, w.ctorErr != nil)
	if w.ctorErr != nil {
		if w.valid && (!w.fit || w.size%segBytes == 0) && w.size >= segBytes {
			e.Violate("C17", "valid_geometry_rejected", "NewBlocks(bs=%d, size=%d, fit=%v) failed for an acceptable geometry: %v", w.bs, w.size, w.fit, w.ctorErr)
		} else if !errors.Is(w.ctorErr, errors.ErrInvalid) {
			e.Violate("C17", "constructor_error_class", "NewBlocks(bs=%d, size=%d, fit=%v) rejected the geometry with %q, not ErrInvalid", w.bs, w.size, w.fit, w.ctorErr)
		} else {
			e.Probe("geometry_rejected_with_ErrInvalid")
		}
		w.bks = nil
		return
	}
	if !w.valid {
		e.Probe("invalid_geometry_accepted")
		// an allocator was returned for a geometry outside the documented set:
		// it must then behave; its own Count() is the reference
		w.expCount = w.bks.Count()
		if w.expCount <= 0 || w.bks.Available() != w.expCount {
			e.Violate("C17", "invalid_geometry_accepted", "NewBlocks(bs=%d, size=%d, fit=%v) returned an allocator with Count()=%d Available()=%d for a geometry it cannot serve; it must be rejected with ErrInvalid", w.bs, w.size, w.fit, w.bks.Count(), w.bks.Available())
			return
		}
	} else {
		if w.bks.Count() != w.expCount {
			e.Violate("C17", "count", "bs=%d segments=%d size=%d: Count()=%d, expected %d", w.bs, w.segs, w.size, w.bks.Count(), w.expCount)
			return
		}
		if w.bks.Available() != w.expCount {
			e.Violate("C17", "available", "fresh allocator: Available()=%d, Count()=%d", w.bks.Available(), w.expCount)
			return
		}
	}
	for ti := range w.c.Tasks {
		t := w.c.Tasks[ti]
		w.tasks++
		idx := ti
		e.Spawn(t.Name, func() { w.runTask(idx, t) }, func(v any, stack string) {
			e.Violate("C17", "panic", "panic in %s: %v", t.Name, v)
		})
	}
}

func (w *world) runTask(ti int, t sim.Task) {
	for _, op := range t.Ops {
		zsimrt.Yield("task:op")
		w.doOp(ti, t.Name, op)
		w.e.OpsDone++
		w.e.Progress()
	}
	w.nDone++
}

func classErr(err error) string {
	switch {
	case err == nil:
		return "ok"
	case errors.Is(err, errors.ErrExhausted):
		return "exhausted"
	case err == errDisk || stderrors.Is(err, errDisk):
		return "fault"
	}
	return "error"
}

func (w *world) fill(blk []byte, tag byte) {
	for i := range blk {
		blk[i] = tag
	}
}

func (w *world) doOp(ti int, name string, op sim.Op) {
	e := w.e
	call := e.Stamp()
	delete(w.faultIn, name)
	switch op.K {
	case "nop":
		return
	case "arrange":
		w.arrLock.RLock()
		w.inFl[name] = inflight{kind: "arrange"}
		idx, err := w.bks.ArrangeBlock()
		delete(w.inFl, name)
		w.arrLock.RUnlock()
		out := classErr(err)
		if out == "fault" && !w.faultIn[name] {
			out = "error"
		}
		if err == nil {
			out = "ok:" + strconv.Itoa(idx)
			if idx < 0 || idx >= w.expCount {
				e.Violate("C17", "index_out_of_range", "ArrangeBlock returned index %d, Count() is %d", idx, w.expCount)
				return
			}
			if old := w.alloc[idx]; old != nil && !w.freeInFlight(idx) {
				e.Violate("C17", "double_allocation", "ArrangeBlock handed out index %d to %s while it is still allocated to task t%d (no free of it is in flight)", idx, name, old.owner)
				return
			}
			w.serial++
			ent := &abk{owner: ti, serial: w.serial, tag: byte(1 + w.serial%250)}
			w.alloc[idx] = ent
			if w.c.Mode == "huge" {
				// header-only run: touching 12 KiB per block would make the 1.2 GB resident
				e.Logf("%s arrange -> %s", name, out)
				w.hist = nil
				return
			}
			// write the tag over the whole block
			ent.busy = true
			blk, berr := w.bks.Block(idx)
			ent.busy = false
			if berr == nil {
				if len(blk) != w.bs {
					e.Violate("C17", "block_size", "Block(%d) returned %d bytes, block size is %d", idx, len(blk), w.bs)
					return
				}
				if w.alloc[idx] == ent {
					w.fill(blk, ent.tag)
					ent.tagged = true
				}
			} else if classErr(berr) != "fault" {
				e.Violate("C17", "block_unreachable", "Block(%d) of a block just allocated failed: %v", idx, berr)
				return
			}
		} else if out == "error" {
			e.Violate("C17", "arrange_error", "ArrangeBlock failed with %q (neither ErrExhausted nor an injected I/O error)", err)
			return
		}
		e.Logf("%s arrange -> %s", name, out)
		w.hist = append(w.hist, histOp{client: ti, kind: "arrange", out: out, call: call, ret: e.Stamp()})
	case "free":
		idx := -1
		var target *abk
		exclusive := false
		switch op.S {
		case "own", "foreign":
			var cands []int
			for i, a := range w.alloc {
				if a.claimed || a.busy {
					continue
				}
				if (op.S == "own") == (a.owner == ti) {
					cands = append(cands, i)
				}
			}
			sort.Ints(cands)
			if len(cands) == 0 {
				return
			}
			idx = cands[int(op.N)%len(cands)]
			target = w.alloc[idx]
			target.claimed = true
			if op.S == "own" && !w.verifyTag(name, idx, target) {
				return
			}
		case "range":
			idx = sim.Pick(sim.NewRng(uint64(op.N)), -1, w.expCount, w.expCount+5, -w.expCount-1, 1<<30)
		default: // an index that is free: must fail. Arranges are held off meanwhile,
			// otherwise the index could be handed out while the call is on its way
			exclusive = true
			w.arrLock.Lock()
			for k := 0; k < w.expCount; k++ {
				i := (int(op.N) + k) % max(1, w.expCount)
				if w.alloc[i] == nil {
					idx = i
					break
				}
			}
			if idx < 0 {
				w.arrLock.Unlock()
				return
			}
		}
		w.inFl[name] = inflight{kind: "free", idx: idx}
		err := w.bks.FreeBlock(idx)
		delete(w.inFl, name)
		if exclusive {
			w.arrLock.Unlock()
		}
		out := classErr(err)
		if out == "fault" && !w.faultIn[name] {
			out = "error"
		}
		if err == nil && target != nil && w.alloc[idx] == target {
			delete(w.alloc, idx)
		} else if target != nil {
			target.claimed = false
			if err == nil {
				// a newer allocation of the same index already replaced the record
			} else if out == "error" {
				e.Violate("C17", "free_failed", "FreeBlock(%d) of an allocated block failed: %v", idx, err)
				return
			}
		}
		if out == "exhausted" {
			out = "error"
		}
		e.Logf("%s free %d -> %s", name, idx, out)
		w.hist = append(w.hist, histOp{client: ti, kind: "free", idx: idx, out: out, call: call, ret: e.Stamp()})
	case "realloc":
		if w.sb != nil {
			if err := w.sb.Grow(int64(len(w.sb.b))); err != nil {
				e.HarnessError("realloc: " + err.Error())
			}
			e.FaultFired("storage_memory_moved")
		}
		return
	case "touch":
		var mine []int
		for i, a := range w.alloc {
			if a.owner == ti && !a.claimed {
				mine = append(mine, i)
			}
		}
		sort.Ints(mine)
		for _, idx := range mine {
			a := w.alloc[idx]
			if a == nil || a.owner != ti || a.claimed {
				continue
			}
			if !w.verifyTag(name, idx, a) {
				return
			}
		}
	case "freeseg":
		// free every allocated block of one segment (then a later segment may still
		// hold allocations while an earlier one is completely free)
		per := 8 * w.bs
		if per <= 0 || w.expCount <= 0 {
			return
		}
		seg := int(op.N) % max(1, w.expCount/per)
		for idx := seg * per; idx < (seg+1)*per && idx < w.expCount; idx++ {
			a := w.alloc[idx]
			if a == nil || a.claimed || a.busy {
				continue
			}
			a.claimed = true
			c2 := e.Stamp()
			w.inFl[name] = inflight{kind: "free", idx: idx}
			err := w.bks.FreeBlock(idx)
			delete(w.inFl, name)
			out := classErr(err)
			if out == "fault" && !w.faultIn[name] {
				out = "error"
			}
			if err == nil && w.alloc[idx] == a {
				delete(w.alloc, idx)
			} else {
				a.claimed = false
				if out == "error" {
					e.Violate("C17", "free_failed", "FreeBlock(%d) of an allocated block failed: %v", idx, err)
					return
				}
			}
			w.hist = append(w.hist, histOp{client: ti, kind: "free", idx: idx, out: out, call: c2, ret: e.Stamp()})
		}
		e.Logf("%s freeseg %d", name, seg)
	case "snap":
		w.snapshot(name)
	}
}

func (w *world) freeInFlight(idx int) bool {
	for _, f := range w.inFl {
		if f.kind == "free" && f.idx == idx {
			return true
		}
	}
	return false
}

func (w *world) verifyTag(name string, idx int, a *abk) bool {
	if a == nil || !a.tagged {
		return true
	}
	a.busy = true
	blk, err := w.bks.Block(idx)
	a.busy = false
	if w.alloc[idx] != a {
		return true // not ours any more
	}
	if err != nil {
		if classErr(err) == "fault" && w.faultIn[name] {
			return true
		}
		w.e.Violate("C17", "block_unreachable", "Block(%d) of an allocated block failed: %v", idx, err)
		return false
	}
	for i, b := range blk {
		if b != a.tag {
			w.e.Violate("C17", "block_content_clobbered", "block %d (allocated, tag %#x written over all %d bytes) now has %#x at byte %d: another block or the bookkeeping area overlaps it", idx, a.tag, len(blk), b, i)
			return false
		}
	}
	return true
}

// snapshot = the bytes a crashed process leaves behind; reopen and compare.
func (w *world) snapshot(name string) {
	e := w.e
	w.snaps++
	var cp []byte
	if w.sb != nil {
		cp = append([]byte(nil), w.sb.b...)
	} else {
		b, err := w.mm.Buffer(0, int(w.mm.Size()))
		if err != nil {
			e.HarnessError("snapshot read: " + err.Error())
			return
		}
		cp = append([]byte(nil), b...)
	}
	// operations in flight at the snapshot
	extraArr := 0
	maybeFree := map[int]bool{}
	for _, f := range w.inFl {
		if f.kind == "arrange" {
			extraArr++
		} else {
			maybeFree[f.idx] = true
		}
	}
	model := map[int]bool{}
	for i := range w.alloc {
		model[i] = true
	}
	var rb gbytes.Buffer
	var cleanup func()
	if w.disk == 1 && w.snaps%2 == 0 {
		// through a second memory-mapped file
		p := filepath.Join(w.dir, fmt.Sprintf("snap%d.dat", w.snaps))
		if err := os.WriteFile(p, cp, 0o644); err != nil {
			e.HarnessError("snapshot write: " + err.Error())
			return
		}
		full := int64(len(cp))
		var mm *files.MMFile
		var err error
		switch {
		case full > 4096 && w.snaps%4 == 0:
			// a reader that first maps only the first page, closes, and then the real reopen
			part, perr := files.NewMMFile(p, 4096)
			if perr != nil {
				e.HarnessError("snapshot partial mmfile: " + perr.Error())
				return
			}
			part.Close()
			mm, err = files.NewMMFile(p, -1)
			e.Probe("reopen_after_partial_mapping")
		case full > 4096 && w.snaps%4 == 2:
			// an application that opens with a smaller configured size and grows the mapping
			mm, err = files.NewMMFile(p, 4096)
			if err == nil {
				err = mm.Grow(full)
			}
			e.Probe("reopen_small_then_grow")
		default:
			mm, err = files.NewMMFile(p, -1)
		}
		if err != nil {
			e.HarnessError("snapshot mmfile: " + err.Error())
			return
		}
		if mm.Size() != full {
			e.Violate("C17", "reopen_size", "the file written with %d bytes is mapped with %d bytes after reopening it: bytes of the allocation state were lost", full, mm.Size())
			mm.Close()
			os.Remove(p)
			return
		}
		rb = mm
		cleanup = func() { mm.Close(); os.Remove(p) }
		e.Probe("reopen_through_mmfile")
	} else {
		rb = &simBuffer{w: w, b: cp, plain: true}
		cleanup = func() {}
		e.Probe("reopen_in_memory")
	}
	defer cleanup()
	var rk *gbytes.Blocks
	var err error
	func() {
		defer func() {
			if r := recover(); r != nil {
				err = fmt.Errorf("panic: %v", r)
			}
		}()
		rk, err = gbytes.NewBlocks(w.bs, rb, w.fit)
	}()
	if err != nil {
		e.Violate("C17", "reopen_failed", "reopening a snapshot of the bytes failed: %v", err)
		return
	}
	if rk.Count() != w.expCount {
		e.Violate("C17", "reopen_count", "reopened allocator has Count()=%d, the live one %d", rk.Count(), w.expCount)
		return
	}
	avail := rk.Available()
	if w.expCount > 2048 {
		// large geometry: accounting plus the model's own indices only
		lo := w.expCount - len(model) - extraArr
		hi := w.expCount - len(model) + len(maybeFree)
		if avail < lo || avail > hi {
			e.Violate("C17", "reopen_available", "reopened allocator reports Available()=%d, the model has %d of %d allocated (%d arranges, %d frees in flight)", avail, len(model), w.expCount, extraArr, len(maybeFree))
			return
		}
		for _, i := range keysOf(model) {
			if ferr := rk.FreeBlock(i); ferr != nil && !maybeFree[i] {
				e.Violate("C17", "reopen_mismatch", "block %d is allocated in the model but free after reopening a snapshot of the bytes", i)
				return
			}
		}
		return
	}
	limit := w.expCount
	got := map[int]bool{}
	for i := 0; i < limit; i++ {
		if ferr := rk.FreeBlock(i); ferr == nil {
			got[i] = true
		}
	}
	if avail != w.expCount-len(got) {
		e.Violate("C17", "reopen_available", "reopened allocator reports Available()=%d but %d of %d blocks are allocated in its bitmap", avail, len(got), w.expCount)
		return
	}
	var missing, surplus []int
	for i := range model {
		if !got[i] && !maybeFree[i] {
			missing = append(missing, i)
		}
	}
	for i := range got {
		if !model[i] {
			surplus = append(surplus, i)
		}
	}
	sort.Ints(missing)
	sort.Ints(surplus)
	if len(missing) > 0 || len(surplus) > extraArr {
		e.Violate("C17", "reopen_mismatch", "a snapshot of the bytes reopened by a second allocator does not reproduce the allocated set: allocated in the model but free after reopen %v; allocated after reopen but free in the model %v (operations in flight: %d arranges, frees of %v)", missing, surplus, extraArr, keysOf(maybeFree))
		return
	}
	e.Logf("%s snapshot: %d allocated, reopen agrees", name, len(got))
}

func keysOf(m map[int]bool) []int {
	var o []int
	for k := range m {
		o = append(o, k)
	}
	sort.Ints(o)
	return o
}

func (w *world) Invariant(e *sim.Env) {
	if w.bks == nil || len(w.inFl) > 0 || len(e.Res.Violations) > 0 {
		return
	}
	// oracle 2: accounting whenever no allocator operation is in flight
	if a := w.bks.Available(); a != w.expCount-len(w.alloc) {
		e.Violate("C17", "available_accounting", "Available()=%d, Count()=%d, %d blocks are allocated (expected Available()=%d)", a, w.expCount, len(w.alloc), w.expCount-len(w.alloc))
	}
}

func (w *world) Idle(e *sim.Env) {}

// Quiet: this world has no timers and no sleeps, so an hour of simulated time
// without any goroutine moving while operations are outstanding is a deadlock
// (e.g. the allocator's lock left held on an error path).
func (w *world) Quiet(e *sim.Env) bool {
	e.Violate("C17", "stuck", "the allocator is stuck: operations are outstanding but no goroutine can run (a lock left held after a failed call?): %s", strings.Join(e.RT.All(), "; "))
	return true
}

func (w *world) Finished(e *sim.Env) bool {
	if w.bks == nil {
		return true
	}
	if w.nDone < w.tasks {
		return false
	}
	switch w.phase {
	case 0:
		w.phase = 1
		e.Spawn("zepi", func() { w.epilogue(); w.phase = 2 }, nil)
		return false
	case 1:
		return false
	}
	return true
}

// epilogue: all tags intact, block ranges pairwise disjoint, final reopen,
// exhaustion exactly when nothing is free (on small geometries).
func (w *world) epilogue() {
	e := w.e
	if w.c.Mode == "huge" {
		// accounting only (oracle 2 ran after every step); no snapshot of 1.2 GB
		if a := w.bks.Available(); a != w.expCount-len(w.alloc) {
			e.Violate("C17", "available_accounting", "Available()=%d, Count()=%d, %d blocks are allocated", a, w.expCount, len(w.alloc))
		}
		e.Probe("huge_geometry_run")
		return
	}
	w.bufFault = map[int64]bool{}
	ids := make([]int, 0, len(w.alloc))
	for i := range w.alloc {
		ids = append(ids, i)
	}
	sort.Ints(ids)
	for _, i := range ids {
		if !w.verifyTag("zepi", i, w.alloc[i]) {
			return
		}
	}
	// geometric disjointness of Block(i) ranges (sampled on large geometries)
	type rng struct {
		lo, hi uintptr
		idx    int
	}
	var rs []rng
	step := 1
	if w.expCount > 2048 {
		step = w.expCount / 2048
	}
	for i := 0; i < w.expCount; i += step {
		blk, err := w.bks.Block(i)
		if err != nil {
			e.Violate("C17", "block_unreachable", "Block(%d) fails although the index is in range [0,%d): %v", i, w.expCount, err)
			return
		}
		if len(blk) != w.bs {
			e.Violate("C17", "block_size", "Block(%d) returned %d bytes, block size is %d", i, len(blk), w.bs)
			return
		}
		if len(blk) > 0 {
			p := uintptr(unsafe.Pointer(&blk[0]))
			rs = append(rs, rng{p, p + uintptr(len(blk)), i})
		}
	}
	sort.Slice(rs, func(a, b int) bool { return rs[a].lo < rs[b].lo })
	for k := 1; k < len(rs); k++ {
		if rs[k].lo < rs[k-1].hi {
			e.Violate("C17", "blocks_overlap", "the byte ranges of blocks %d and %d overlap", rs[k-1].idx, rs[k].idx)
			return
		}
	}
	if _, err := w.bks.Block(w.expCount); err == nil {
		e.Violate("C17", "block_out_of_range", "Block(%d) succeeded although Count() is %d", w.expCount, w.expCount)
		return
	}
	w.snapshot("zepi")
	if len(e.Res.Violations) > 0 {
		return
	}
	// exhaustion: fill up, expect exactly Count()-allocated successes, then ErrExhausted
	if w.expCount <= 600 {
		free := w.expCount - len(w.alloc)
		for k := 0; k < free; k++ {
			w.inFl["zepi"] = inflight{kind: "arrange"} // the accounting invariant is not evaluated inside the call
			idx, err := w.bks.ArrangeBlock()
			if err != nil {
				e.Violate("C17", "exhausted_too_early", "ArrangeBlock failed with %v while %d of %d blocks are still free", err, free-k, w.expCount)
				return
			}
			if w.alloc[idx] != nil {
				e.Violate("C17", "double_allocation", "ArrangeBlock handed out index %d which is still allocated", idx)
				return
			}
			w.alloc[idx] = &abk{owner: -1}
			delete(w.inFl, "zepi")
		}
		if _, err := w.bks.ArrangeBlock(); !errors.Is(err, errors.ErrExhausted) {
			e.Violate("C17", "not_exhausted", "all %d blocks are allocated but ArrangeBlock returned %v instead of ErrExhausted", w.expCount, err)
			return
		}
		if w.bks.Available() != 0 {
			e.Violate("C17", "available_accounting", "all blocks allocated but Available()=%d", w.bks.Available())
			return
		}
		e.Probe("filled_to_exhaustion")
		for _, i := range ids {
			if !w.verifyTag("zepi", i, w.alloc[i]) {
				return
			}
		}
	}
}

func (w *world) Teardown(e *sim.Env) {
	if w.mm != nil {
		w.mm.Close()
	}
	if w.dir != "" {
		os.RemoveAll(w.dir)
	}
}

// ---------------------------------------------------------------------------
// porcupine: set model

type setState struct{ s string }

type setIn struct {
	kind string
	idx  int
}

func (w *world) Post(res *sim.Result) {
	if len(w.hist) == 0 || len(res.Violations) > 0 || res.HarnessError != "" || res.Inconclusive != "" || len(w.hist) > 60 {
		return
	}
	count := w.expCount
	has := func(st string, i int) bool {
		for _, x := range strings.Split(st, ",") {
			if x == strconv.Itoa(i) {
				return true
			}
		}
		return false
	}
	size := func(st string) int {
		if st == "" {
			return 0
		}
		return strings.Count(st, ",") + 1
	}
	add := func(st string, i int) string {
		var xs []int
		if st != "" {
			for _, x := range strings.Split(st, ",") {
				v, _ := strconv.Atoi(x)
				xs = append(xs, v)
			}
		}
		xs = append(xs, i)
		sort.Ints(xs)
		var p []string
		for _, x := range xs {
			p = append(p, strconv.Itoa(x))
		}
		return strings.Join(p, ",")
	}
	del := func(st string, i int) string {
		var p []string
		for _, x := range strings.Split(st, ",") {
			if x != strconv.Itoa(i) && x != "" {
				p = append(p, x)
			}
		}
		return strings.Join(p, ",")
	}
	model := porcupine.Model{
		Init: func() interface{} { return setState{} },
		Step: func(state, input, output interface{}) (bool, interface{}) {
			st := state.(setState).s
			in := input.(setIn)
			out := output.(string)
			switch in.kind {
			case "arrange":
				switch {
				case strings.HasPrefix(out, "ok:"):
					i, _ := strconv.Atoi(out[3:])
					if has(st, i) {
						return false, state
					}
					return true, setState{add(st, i)}
				case out == "exhausted":
					return size(st) == count, state
				case out == "fault":
					return true, state
				}
			case "free":
				switch out {
				case "ok":
					if !has(st, in.idx) {
						return false, state
					}
					return true, setState{del(st, in.idx)}
				case "error":
					return !has(st, in.idx), state
				case "fault":
					return true, state
				}
			}
			return false, state
		},
		Equal: func(a, b interface{}) bool { return a.(setState) == b.(setState) },
	}
	var ops []porcupine.Operation
	for _, h := range w.hist {
		ops = append(ops, porcupine.Operation{ClientId: h.client, Input: setIn{h.kind, h.idx}, Call: h.call, Output: h.out, Return: h.ret})
	}
	switch porcupine.CheckOperationsTimeout(model, ops, 20*time.Second) {
	case porcupine.Illegal:
		var lines []string
		for _, h := range w.hist {
			lines = append(lines, fmt.Sprintf("c%d [%d,%d] %s(%d) -> %s", h.client, h.call, h.ret, h.kind, h.idx, h.out))
		}
		res.Violations = append(res.Violations, sim.Violation{Prop: "C17", Oracle: "not_linearizable", Msg: fmt.Sprintf("Count()=%d: the history of ArrangeBlock/FreeBlock is not equivalent to any sequential history of a set allocator: %s", count, strings.Join(lines, "; "))})
	case porcupine.Unknown:
		if res.Inconclusive == "" {
			res.Inconclusive = "linearizability check timed out"
		}
	default:
		res.Probes["histories_checked"]++
	}
}
