package blocks

import (
	"fmt"
	"time"

	"verifharness/sim"
)

func Generate(r *sim.Rng, prop, tier string, idx int) *sim.Case {
	c := &sim.Case{World: "blocks", Prop: prop, Mode: "rand", Knobs: map[string]int64{}}
	c.Sched = sim.SchedCfg{F: sim.Pick(r, 16, 64, 256), MaxJitter: sim.Pick(r, int64(10), int64(1000)), StickyPct: sim.Pick(r, 0, 30, 70, 90), MaxSteps: 400000, HorizonNs: int64(time.Hour)}
	if r.Chance(1, 4) {
		c.Sched.PCTDepth = 2 + r.Intn(4)
		c.Sched.PCTLen = 200
	}
	// geometry
	hugeOdds := 1200
	if tier == "thorough" {
		hugeOdds = 400
	}
	switch {
	case r.Chance(1, hugeOdds):
		// a block size that is a multiple of the page size but not a power of two: one
		// segment of 1.2 GB of address space of which only the header is ever touched
		c.Mode = "huge"
		c.Knobs["bs"] = 12288
		c.Knobs["segments"] = 1
		c.Knobs["fit"] = 1
		task := sim.Task{Name: "t0"}
		n := 33000 + r.Intn(20000)
		for i := 0; i < n; i++ {
			task.Ops = append(task.Ops, sim.Op{K: "arrange"})
		}
		for k := 0; k < 3; k++ {
			task.Ops = append(task.Ops, sim.Op{K: "free", S: "own", N: int64(20000 + r.Intn(n-20000))})
			task.Ops = append(task.Ops, sim.Op{K: "arrange"})
		}
		c.Tasks = []sim.Task{task}
		c.Sched.MaxSteps = 3000000
		return c
	case r.Chance(1, 8):
		c.Mode = "invalid"
		c.Knobs["bs"] = int64(sim.Pick(r, 0, 3, 6, 100, 4097, -1, -8, -4096, 5, 12))
		c.Knobs["raw_size"] = int64(sim.Pick(r, 0, 1, 75, 300, 4096, 8192, 80100))
		c.Knobs["fit"] = int64(r.Intn(2))
	default:
		bss := []int{1, 2, 4, 8, 16, 32, 64}
		bs := bss[r.Intn(len(bss))]
		if r.Chance(1, 2) {
			bs = bss[r.Intn(4)] // tiny geometries: exhaustion and wrap-around of header bytes are reachable
		}
		if tier == "thorough" {
			switch {
			case r.Chance(1, 400):
				bs = 4096
			case r.Chance(1, 20):
				bs = sim.Pick(r, 128, 256, 512, 1024)
			}
		}
		c.Knobs["bs"] = int64(bs)
		segs := 1 + r.Intn(3)
		if bs >= 1024 {
			segs = 1
		}
		c.Knobs["segments"] = int64(segs)
		c.Knobs["fit"] = 1
		if r.Chance(1, 3) {
			// oversized buffer
			c.Knobs["fit"] = 0
			c.Knobs["extra"] = int64(1 + r.Intn((8*bs+1)*bs-1))
		}
		if r.Chance(1, 12) {
			// too small / not a multiple with fit=true: must be rejected
			c.Mode = "badsize"
			c.Knobs["fit"] = 1
			c.Knobs["extra"] = int64(1 + r.Intn((8*bs+1)*bs-1))
		}
	}
	if tier == "thorough" && r.Chance(1, 6) && c.Mode == "rand" {
		c.Knobs["disk"] = 1 // real memory-mapped file
	}
	if tier == "quick" && r.Chance(1, 12) && c.Mode == "rand" {
		c.Knobs["disk"] = 1
	}
	count := int(c.Knobs["segments"]) * 8 * int(c.Knobs["bs"])
	nt := 1 + r.Intn(4)
	for t := 0; t < nt; t++ {
		task := sim.Task{Name: fmt.Sprintf("t%d", t)}
		n := 3 + r.Intn(8)
		if count > 0 && count <= 32 && r.Chance(1, 2) {
			n = count/nt + 2 + r.Intn(6) // drive tiny geometries to exhaustion
		}
		for i := 0; i < n; i++ {
			switch r.Intn(16) {
			case 0, 1, 2, 3, 4, 5, 6:
				task.Ops = append(task.Ops, sim.Op{K: "arrange"})
			case 7, 8, 9:
				task.Ops = append(task.Ops, sim.Op{K: "free", S: "own", N: int64(r.Intn(1000))})
			case 10:
				task.Ops = append(task.Ops, sim.Op{K: "free", S: "foreign", N: int64(r.Intn(1000))})
			case 11:
				task.Ops = append(task.Ops, sim.Op{K: "free", S: "free", N: int64(r.Intn(1000))})
			case 12:
				task.Ops = append(task.Ops, sim.Op{K: "free", S: "range", N: int64(r.Intn(1000))})
			case 13:
				task.Ops = append(task.Ops, sim.Op{K: "touch"})
			default:
				task.Ops = append(task.Ops, sim.Op{K: "snap"})
			}
		}
		c.Tasks = append(c.Tasks, task)
	}
	// pattern: fill more than one segment, free a whole earlier segment, reopen
	if c.Mode == "rand" && c.Knobs["segments"] >= 2 && c.Knobs["bs"] <= 8 && r.Chance(1, 4) {
		per := 8 * int(c.Knobs["bs"])
		task := sim.Task{Name: fmt.Sprintf("t%d", len(c.Tasks))}
		n := per + 1 + r.Intn(per)
		for i := 0; i < n; i++ {
			task.Ops = append(task.Ops, sim.Op{K: "arrange"})
		}
		task.Ops = append(task.Ops, sim.Op{K: "freeseg", N: int64(r.Intn(int(c.Knobs["segments"]) - 1))})
		task.Ops = append(task.Ops, sim.Op{K: "snap"})
		task.Ops = append(task.Ops, sim.Op{K: "arrange"})
		task.Ops = append(task.Ops, sim.Op{K: "snap"})
		if r.Chance(1, 2) {
			c.Tasks = []sim.Task{task} // alone: the other tasks' allocations would keep the segment busy
			c.Tasks[0].Name = "t0"
		} else {
			c.Tasks = append(c.Tasks, task)
		}
	}
	if r.Chance(1, 4) {
		nf := 1 + r.Intn(2)
		for i := 0; i < nf; i++ {
			c.Faults = append(c.Faults, sim.Fault{Seam: "buffer", Kind: "io_error", Ord: int64(1 + r.Intn(40))})
		}
	}
	if c.Mode == "rand" && len(c.Tasks) == 1 && c.Knobs["disk"] == 0 && r.Chance(1, 3) {
		// the storage under the allocator moves its memory (the in-memory buffer of the library
		// reallocates on every Grow, a mapped file is remapped): slices handed out before are stale,
		// the allocator must go through Buffer() again
		ops := c.Tasks[0].Ops
		for k := 0; k < 1+r.Intn(2) && len(ops) > 1; k++ {
			at := 1 + r.Intn(len(ops)-1)
			ops = append(ops[:at], append([]sim.Op{{K: "realloc"}}, ops[at:]...)...)
		}
		c.Tasks[0].Ops = ops
	}
	return c
}
