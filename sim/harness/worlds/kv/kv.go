package kv

import (
	"context"
	stderrors "errors"
	"fmt"
	"sort"
	"strings"
	"time"

	"verifharness/sim"
	"verifharness/worlds/backend"

	"github.com/acquirecloud/golibs/errors"
	"github.com/acquirecloud/golibs/kvs"
	"github.com/acquirecloud/golibs/zsimrt"
	"github.com/gobwas/glob"
)

type histOp struct {
	Client int
	Kind   string // create get put cas del
	Key    string
	Val    string
	Ver    string // input version (cas)
	Short  bool   // the write carries a short expiry (it is gone by the next tick)
	Out    outcome
	Call   int64
	Ret    int64
}

type taskState struct {
	short     bool // the current operation writes with a short expiry
	scribbleT []*time.Time
	scribble  [][]byte // value buffers this caller overwrites after its current operation
	name      string
	idx       int
	cl        kvs.Storage
	seen      map[string][]string // versions observed per key
	done      bool
	bogus     int
	waiter    *waitState
}

// C07 bookkeeping
type keyState struct {
	present bool
	ver     string // "" = fresh but unknown (PutMany)
	a, b    int64  // stamps of the mutation that produced it (invoke, return)
	at      time.Time
	pending bool // the mutation is in flight: it may or may not have taken effect
	known   bool // ver is the version the implementation reported
}

type waitState struct {
	task     string
	key      string
	ver      string
	inv      int64
	invAt    time.Time
	active   bool
	ctx      context.Context
	cancelAt time.Time
	cancelSt int64
	deadline time.Time // context deadline, if it has one
}

type world struct {
	// shadow model of knob slash_keys (keys identified up to leading slashes)
	mN           *model
	mNok         bool
	shadowRan    bool
	shadowMsg    string
	stopJudging  bool
	braceLiteral bool
	c            *sim.Case
	e            *sim.Env
	mode         string
	be           *backend.Backend
	tasks        []*taskState
	nDone        int
	m            *model
	hist         []histOp
	allVers      map[string]string // version -> first writer description (C02 b)
	// C07
	states     map[string][]keyState
	mutTok     zsimrt.Mutex
	inFlight   int
	waits      []*waitState
	lastMutRet map[string]time.Time
	phase      int
	pollBound  time.Duration
	// C06 "expwait" mode: several waiters parked across one expiry instant
	expAt            map[string]time.Time
	expWrites        map[string][]expWrite
	lastCreateFailed bool
	// last value written per key (for writes that deliberately keep the value)
	lastVal map[string]string
	// C02 "expiry phase": a setup task writes (partly expiring) records, time passes,
	// then the concurrent phase starts from that state
	initState     map[string]linState
	setupExpiring map[string]bool      // key -> the setup write in progress carries a short expiry
	setupExpAt    map[string]time.Time // key -> expiry instant written by the setup task
	skipKey       map[string]bool      // key -> a concurrent-phase operation started before that instant: not judged
	opStart       map[string]time.Time // task -> start of its current operation
	opStall0      map[string]time.Duration
	srvErr        [][2]time.Time  // periods in which the Redis server answered with errors
	ticks         [][2]int64      // [call, return] stamps of tick markers (conc)
	netFaults     bool            // the fault plan loses messages (Redis transport)
	scribble      [][]byte        // value buffers the caller overwrites after the current operation
	lastFar       map[string]bool // the last successful write of the key carried no or a far expiry
	byTask        map[string]*taskState
	// cancellations tied to the next mutation of a key (C07)
	beforeMut map[string][]func()
	afterMut  map[string][]func()
}

func New(c *sim.Case) (sim.World, error) {
	return &world{c: c, mode: c.Mode, allVers: map[string]string{}, states: map[string][]keyState{}, lastMutRet: map[string]time.Time{}, expAt: map[string]time.Time{}, expWrites: map[string][]expWrite{}, lastVal: map[string]string{}, initState: map[string]linState{}, setupExpiring: map[string]bool{}, setupExpAt: map[string]time.Time{}, skipKey: map[string]bool{}, opStart: map[string]time.Time{}, opStall0: map[string]time.Duration{}, lastFar: map[string]bool{}, byTask: map[string]*taskState{}, beforeMut: map[string][]func(){}, afterMut: map[string][]func(){}}, nil
}

func (w *world) prop() string { return w.c.Prop }

func (w *world) Setup(e *sim.Env) {
	w.e = e
	resetCanon()
	e.OnPanic = func(name string, v any, stack string) {
		e.Violate(w.prop(), "panic", "panic in %s: %v", name, v)
	}
	be, err := backend.New(e, backend.Kind(w.c.Knob("backend", 0)), w.c)
	if err != nil {
		e.HarnessError("backend: " + err.Error())
		return
	}
	w.be = be
	grace := time.Duration(0)
	if w.prop() == "C06" {
		grace = 2 * time.Millisecond
	}
	if g := w.c.Knob("grace_ms", 0); g > 0 {
		grace = time.Duration(g) * time.Millisecond
	}
	for _, f := range w.c.Faults {
		if f.Seam == "net" {
			w.netFaults = true
		}
	}
	w.m = newModel(grace)
	w.m.OwnStall = func() time.Duration { return zsimrt.StalledNs() - w.opStall0[zsimrt.CurrentName()] }
	// a caller thread inside WaitForVersionChange may be slow at any point of the library code
	e.StallOK = func(name, point string) bool {
		ts := w.byTask[name]
		return ts != nil && ts.waiter != nil && strings.Contains(point, ".go:")
	}
	if l := time.Duration(w.c.Knob("net_latency_ns", 0)); l > 0 {
		// one one-way trip after the TTL was computed is what no implementation can avoid
		// (the commands of a pipeline or transaction travel together)
		w.m.LagWrite, w.m.LagCas = l+l/4, l+l/4
	}
	w.m.LaxVersions = w.prop() == "C06"
	if w.c.Knob("slash_keys", 0) == 1 && w.mode == "seq" {
		w.mN = newModel(grace)
		w.mN.LaxVersions = w.m.LaxVersions
		w.mNok = true
	}
	w.pollBound = 250 * time.Millisecond
	shared := w.c.Knob("shared_client", 0) == 1
	for ti := range w.c.Tasks {
		t := w.c.Tasks[ti]
		ci := ti
		if shared {
			ci = 0
		}
		ts := &taskState{name: t.Name, idx: ti, cl: be.Client(ci), seen: map[string][]string{}}
		w.tasks = append(w.tasks, ts)
		w.byTask[t.Name] = ts
		e.Spawn(t.Name, func() { w.runTask(ts, t) }, func(v any, stack string) {
			// no stack in the message: it carries goroutine ids and addresses and the
			// message is part of the canonical trace
			e.Violate(w.prop(), "panic", "panic in %s: %v", t.Name, v)
		})
	}
}

func firstLines(s string, n int) string {
	l := strings.Split(s, "\n")
	if len(l) > n {
		l = l[:n]
	}
	return strings.Join(l, "\n")
}

func classify(err error) string {
	switch {
	case err == nil:
		return "ok"
	case errors.Is(err, errors.ErrExist):
		return "ErrExist"
	case errors.Is(err, errors.ErrNotExist):
		return "ErrNotExist"
	case errors.Is(err, errors.ErrConflict):
		return "ErrConflict"
	case stderrors.Is(err, context.Canceled), stderrors.Is(err, context.DeadlineExceeded):
		return "ctx"
	}
	return "other:" + err.Error()
}

func valStr(b []byte) string { return string(b) } // nil and empty identified

func recOut(r kvs.Record, err error) outcome {
	o := outcome{Err: classify(err)}
	if err == nil {
		o.Found = true
		o.Val = valStr(r.Value)
		o.Ver = r.Version
		o.Exp = r.ExpiresAt
	}
	return o
}

func (ts *taskState) see(key, ver string) {
	if ver == "" {
		return
	}
	s := ts.seen[key]
	if len(s) > 0 && s[len(s)-1] == ver {
		return
	}
	ts.seen[key] = append(s, ver)
}

// pickVer resolves a version reference of an operation.
func (ts *taskState) pickVer(key string, n int64) string {
	s := ts.seen[key]
	switch n {
	case 0:
		if len(s) > 0 {
			return s[len(s)-1]
		}
	case 1:
		if len(s) > 0 {
			return s[0]
		}
	case 6:
		// the zero value of the field (no stored version is ever empty)
		return ""
	case 3, 4, 5:
		// near misses of the latest version: versions are opaque strings compared for
		// equality, so none of these may be taken for the stored one
		if len(s) > 0 {
			v := s[len(s)-1]
			var m string
			switch n {
			case 3:
				m = strings.ToLower(v)
				if m == v {
					m = strings.ToUpper(v)
				}
			case 4:
				m = v + " "
			default:
				m = v[:len(v)-1]
			}
			if m != v && m != "" {
				cv.alias(m, v, n)
				return m
			}
		}
	}
	ts.bogus++
	return fmt.Sprintf("01BOGUS%s%04d", strings.ToUpper(ts.name), ts.bogus)
}

// FarExpiry values of Op.D: absolute "practically never" instants that do not
// fit a duration (more than 292 years ahead).
const (
	FarExpiry2500 = int64(1)<<62 + 1
	FarExpiry9999 = int64(1)<<62 + 2
	// an instant far beyond year 9999 (what a millisecond timestamp gives when it is taken
	// for seconds): no time formatting or protobuf timestamp validity rule covers it
	FarExpiryBeyond = int64(1)<<62 + 3
)

func expOf(d int64, now time.Time) *time.Time {
	if d == 0 {
		return nil
	}
	switch d {
	case FarExpiry2500:
		t := time.Date(2500, 1, 1, 0, 0, 0, 0, time.UTC)
		return &t
	case FarExpiry9999:
		t := time.Date(9999, 12, 31, 23, 59, 59, 0, time.UTC)
		return &t
	case FarExpiryBeyond:
		t := time.Unix(1700000000000, 0)
		return &t
	}
	t := now.Add(time.Duration(d))
	return &t
}

// emptyKey stands for the key "" in operations (keys are comma-joined in Op.S).
const emptyKey = "<empty>"

func rk(s string) string {
	if s == emptyKey {
		return ""
	}
	return s
}

// srvErrOverlap: for how long did the server refuse to work within [a, b]? (a waiter cannot
// learn anything meanwhile; that time does not count against its promptness)
func (w *world) srvErrOverlap(a, b time.Time) time.Duration {
	var d time.Duration
	for _, iv := range w.srvErr {
		s, e := iv[0], iv[1]
		if e.IsZero() || e.After(b) {
			e = b
		}
		if s.Before(a) {
			s = a
		}
		if e.After(s) {
			d += e.Sub(s)
		}
	}
	return d
}

// srvErrDuring: did the server refuse to work at some moment of [a, b]?
func (w *world) srvErrDuring(a, b time.Time) bool {
	for _, iv := range w.srvErr {
		if !iv[0].After(b) && (iv[1].IsZero() || !iv[1].Before(a)) {
			return true
		}
	}
	return false
}

// buf: the value buffer a caller passes to a write. With knob reuse_buffers the caller
// overwrites it as soon as the call has returned (a buffer that is reused for the next
// message): what the storage keeps must not change with it.
func (w *world) buf(ts *taskState, v string) []byte {
	b := []byte(v)
	if w.c.Knob("reuse_buffers", 0) == 1 && len(b) > 0 {
		ts.scribble = append(ts.scribble, b)
	}
	return b
}

// expBuf: the same for the time value an ExpiresAt pointer refers to.
func (w *world) expBuf(ts *taskState, exp *time.Time) *time.Time {
	if exp == nil || w.c.Knob("reuse_buffers", 0) == 0 {
		return exp
	}
	cp := *exp
	ts.scribbleT = append(ts.scribbleT, &cp)
	return &cp
}

// reuseBuffers overwrites the buffers handed to (or, on the in-memory backend, returned by)
// the calls of the operation that has just ended.
func (w *world) reuseBuffers(ts *taskState) {
	for _, b := range ts.scribble {
		for i := range b {
			b[i] = '#'
		}
	}
	for _, t := range ts.scribbleT {
		*t = time.Unix(1, 0) // long ago
	}
	if len(ts.scribble) > 0 {
		w.e.Probe("value_buffers_overwritten_after_the_call")
	}
	ts.scribble, ts.scribbleT = nil, nil
}

func (ts *taskState) callerVer(w *world, key string) string {
	if w.c.Knob("caller_versions", 0) == 0 {
		return ""
	}
	return ts.pickVer(key, 0)
}

func split(s string) []string {
	if s == "" {
		return nil
	}
	var out []string
	for _, tok := range strings.Split(s, ",") {
		// "#k:from:to:step" stands for the keys k0000.. of a big population,
		// "#x:from:to:step" for as many distinct values
		var pre string
		var a, b, st int
		if n, _ := fmt.Sscanf(tok, "#%1s:%d:%d:%d", &pre, &a, &b, &st); n == 4 && st > 0 {
			for i := a; i < b; i += st {
				out = append(out, fmt.Sprintf("%s%04d", pre, i))
			}
			continue
		}
		out = append(out, rk(tok))
	}
	return out
}

func (w *world) runTask(ts *taskState, t sim.Task) {
	e := w.e
	ctx := context.Background()
	for i, op := range t.Ops {
		zsimrt.Yield("task:op")
		w.doOp(ctx, ts, op, i)
		if e.Res != nil {
			e.OpsDone++
		}
		e.Progress()
	}
	ts.done = true
	w.nDone++
}

// doOp executes one operation and feeds the mode's oracle.
func (w *world) doOp(ctx context.Context, ts *taskState, op sim.Op, i int) {
	e := w.e
	if w.stopJudging {
		return
	}
	seq := w.mode == "seq" || w.mode == "exp"
	if w.mode == "expwait" && (op.K == "put" || op.K == "create") {
		inv := time.Now()
		defer func(k string, d int64) {
			// (a failed Create wrote nothing; it is not logged)
			if op.K == "create" && w.lastCreateFailed {
				return
			}
			wr := expWrite{inv: inv, ret: time.Now()}
			if d != 0 {
				wr.exp = expOf(d, inv)
			}
			w.expWrites[k] = append(w.expWrites[k], wr)
			if _, ok := w.expAt[k]; !ok && d > 0 {
				w.expAt[k] = inv.Add(time.Duration(d))
			}
		}(op.S, op.D)
	}
	conc := w.mode == "conc"
	wmode := w.mode == "wait"
	t0 := time.Now()
	call := e.Stamp()
	var o outcome
	var msg string
	mutating := false
	switch op.K {
	case "create", "put", "cas", "del", "putmany":
		mutating = true
	}
	if op.K != "getmany" && op.K != "putmany" && op.K != "list" {
		op.S = rk(op.S)
	} else if op.K == "list" {
		op.S = rk(op.S)
	}
	w.opStart[ts.name] = time.Now()
	w.opStall0[ts.name] = zsimrt.StalledNs()
	ts.short = op.D > 0 && op.D < int64(time.Minute)
	if ts.name == "s0" && w.c.Knob("exp_phase", 0) == 1 {
		for j, k := range split(op.S) {
			exp := op.D > 0 && op.D < int64(time.Minute)
			if op.K == "putmany" && op.E != 0 && op.E&(1<<uint(j)) == 0 {
				exp = false
			}
			w.setupExpiring[k] = exp
			if exp {
				w.setupExpAt[k] = time.Now().Add(time.Duration(op.D))
			} else {
				delete(w.setupExpAt, k)
			}
		}
	}
	if op.V == "=" {
		// keep the stored value (a lease-refresh style write): only version/expiry move
		op.V = w.lastVal[op.S]
	}
	if wmode && mutating {
		w.mutTok.Lock()
		w.inFlight++
		call = e.Stamp()
		t0 = time.Now()
		// the mutation may take effect at any moment from now on
		for j, k := range split(op.S) {
			present := op.K != "del"
			if op.D < 0 && (op.K == "put" || op.K == "create" || (op.K == "putmany" && (op.E == 0 || op.E&(1<<uint(j)) != 0))) {
				present = false // written already expired
			}
			w.states[k] = append(w.states[k], keyState{present: present, a: call, b: 1 << 62, pending: true, at: t0})
			for _, f := range w.beforeMut[k] {
				f()
			}
			delete(w.beforeMut, k)
		}
	}
	switch op.K {
	case "nop":
		return
	case "tick":
		// a marker in the concurrent history: every short-lived record written before it has
		// expired by the time it ends (mode conc, programs in two phases)
		c0 := e.Stamp()
		zsimrt.Sleep("task:tick", time.Millisecond)
		w.ticks = append(w.ticks, [2]int64{c0, e.Stamp()})
		e.Logf("%s tick", ts.name)
		return
	case "jump":
		zsimrt.Sleep("task:jump", time.Duration(op.D))
		e.Logf("%s jump %v", ts.name, time.Duration(op.D))
		return
	case "srverr":
		// the Redis server answers every command with an error reply for a while
		w.be.SetServerError("ERR injected: the server refuses to work")
		w.srvErr = append(w.srvErr, [2]time.Time{time.Now(), {}})
		e.FaultFired("server_error_replies")
		e.Logf("%s server answers with errors for %v", ts.name, time.Duration(op.D))
		zsimrt.Sleep("task:srverr", time.Duration(op.D))
		w.be.SetServerError("")
		w.srvErr[len(w.srvErr)-1][1] = time.Now()
		e.Logf("%s server works again", ts.name)
		return
	case "create":
		exp := expOf(op.D, t0)
		// knob caller_versions: records are passed as they were read earlier (Version set); the
		// storage assigns a fresh version all the same
		ver, err := ts.cl.Create(ctx, kvs.Record{Key: op.S, Value: w.buf(ts, op.V), ExpiresAt: w.expBuf(ts, exp), Version: ts.callerVer(w, op.S)})
		o = outcome{Err: classify(err), Ver: ver}
		t1 := time.Now()
		if err == nil || o.Err == "ErrExist" {
			ts.see(op.S, ver)
		}
		w.lastCreateFailed = err != nil
		if seq {
			msg = w.m.applyCreate(op.S, op.V, exp, &o, t0, t1)
			w.shadow(func(m *model) string { oo := o; return m.applyCreate(nrm(op.S), op.V, exp, &oo, t0, t1) })
		}
		if conc {
			w.record(ts, "create", op.S, op.V, "", o, call)
		}
		if wmode && err == nil {
			w.newState(op.S, true, ver, call)
		}
		if err == nil {
			w.lastVal[op.S] = op.V
			w.lastFar[op.S] = exp == nil || time.Until(*exp) > 30*time.Minute
		}
	case "get":
		r, err := ts.cl.Get(ctx, op.S)
		o = recOut(r, err)
		if err == nil && w.c.Knob("reuse_buffers", 0) == 1 && w.be.Kind == backend.InMem && len(r.Value) > 0 {
			ts.scribble = append(ts.scribble, r.Value) // the caller works on what it was given
		}
		t1 := time.Now()
		if err == nil {
			ts.see(op.S, r.Version)
			if r.Key != op.S && (seq || conc) {
				msg = fmt.Sprintf("Get(%q) returned a record with key %q", op.S, r.Key)
			}
		}
		if seq && msg == "" {
			msg = w.m.applyGet(op.S, &o, t0, t1)
			w.shadow(func(m *model) string { oo := o; return m.applyGet(nrm(op.S), &oo, t0, t1) })
		}
		if w.mode == "expwait" && op.F {
			if lv, ok := w.lastVal[op.S]; ok && w.lastFar[op.S] && (err != nil || valStr(r.Value) != lv) {
				e.Violate("C06", "live_record_dropped", "[%s backend] the record %q was overwritten (value %q, expiry none or far in the future) around the expiry instant of its predecessor; a later Get returned %s: a record whose expiration lies in the future was dropped", w.be.Kind, op.S, lv, o.Err)
				return
			}
		}
		if conc {
			w.record(ts, "get", op.S, "", "", o, call)
		}
	case "getmany":
		keys := split(op.S)
		rs, err := ts.cl.GetMany(ctx, keys...)
		o = outcome{Err: classify(err)}
		t1 := time.Now()
		if err == nil {
			for j, r := range rs {
				if r == nil {
					o.Many = append(o.Many, nil)
					continue
				}
				so := recOut(*r, nil)
				o.Many = append(o.Many, &so)
				if j < len(keys) {
					ts.see(keys[j], r.Version)
					if r.Key != keys[j] && (seq || conc) {
						msg = fmt.Sprintf("GetMany returned a record with key %q at the position of %q", r.Key, keys[j])
					}
				}
			}
		}
		if seq && msg == "" {
			msg = w.m.applyGetMany(keys, &o, t0, t1)
			w.shadow(func(m *model) string { oo := o; return m.applyGetMany(nrms(keys), &oo, t0, t1) })
		}
		if conc && err == nil && len(rs) == len(keys) {
			for j, k := range keys {
				so := outcome{Err: "ErrNotExist"}
				if o.Many[j] != nil {
					so = *o.Many[j]
					so.Err = "ok"
				}
				w.record(ts, "get", k, "", "", so, call)
			}
		} else if conc {
			w.record(ts, "getmany", op.S, "", "", o, call)
		}
	case "put":
		if op.V == "@ver" {
			// an application that keeps a back-pointer to the version it replaces inside the value
			op.V = "prev=" + ts.pickVer(op.S, 0)
		}
		exp := expOf(op.D, t0)
		r, err := ts.cl.Put(ctx, kvs.Record{Key: op.S, Value: w.buf(ts, op.V), ExpiresAt: w.expBuf(ts, exp), Version: ts.callerVer(w, op.S)})
		o = recOut(r, err)
		if err == nil {
			ts.see(op.S, r.Version)
			if (seq || conc) && (r.Key != op.S || !expEq(r.ExpiresAt, exp)) {
				msg = fmt.Sprintf("Put(%q) returned a record with key %q and expiry %v, stored was key %q expiry %v", op.S, r.Key, r.ExpiresAt, op.S, exp)
			}
		}
		if seq && msg == "" {
			msg = w.m.applyPut(op.S, op.V, exp, &o)
			w.shadow(func(m *model) string { oo := o; return m.applyPut(nrm(op.S), op.V, exp, &oo) })
		}
		if conc {
			w.record(ts, "put", op.S, op.V, "", o, call)
		}
		if wmode && err == nil {
			w.newState(op.S, op.D >= 0, r.Version, call) // D < 0: written already expired = absent
		}
		if err == nil {
			w.lastVal[op.S] = op.V
			w.lastFar[op.S] = exp == nil || time.Until(*exp) > 30*time.Minute
		}
	case "putmany":
		keys := split(op.S)
		vals := split(op.V)
		exp := expOf(op.D, t0)
		// E != 0: bit j says whether record j carries the expiry (mixed batches)
		exps := make([]*time.Time, len(keys))
		for j := range keys {
			if op.E == 0 || op.E&(1<<uint(j)) != 0 {
				exps[j] = exp
			}
		}
		var recs []kvs.Record
		for j, k := range keys {
			rec := kvs.Record{Key: k, Value: w.buf(ts, vals[j]), ExpiresAt: w.expBuf(ts, exps[j])}
			if op.F {
				// a caller that passes records it read earlier (Version set)
				rec.Version = ts.pickVer(k, 0)
			}
			recs = append(recs, rec)
		}
		var err error
		if op.N == 7 {
			// set-up of a big population: one plain call, no scheduling points inside
			zsimrt.Unchecked(func() { err = ts.cl.PutMany(ctx, recs) })
		} else {
			err = ts.cl.PutMany(ctx, recs)
		}
		o = outcome{Err: classify(err)}
		if seq {
			msg = w.m.applyPutMany(keys, vals, exps, &o)
			w.shadow(func(m *model) string { oo := o; return m.applyPutMany(nrms(keys), vals, exps, &oo) })
		}
		if conc {
			all := ts.short
			for j, k := range keys {
				ts.short = all && exps[j] != nil
				w.record(ts, "putmany", k, vals[j], "", o, call)
			}
		}
		if wmode && err == nil {
			for j, k := range keys {
				w.newState(k, exps[j] == nil || op.D >= 0, "", call)
			}
		}
	case "cas":
		exp := expOf(op.D, t0)
		ver := ts.pickVer(op.S, op.N)
		if op.V == "@ver" {
			op.V = "prev=" + ver
		}
		r, err := ts.cl.CasByVersion(ctx, kvs.Record{Key: op.S, Value: w.buf(ts, op.V), Version: ver, ExpiresAt: w.expBuf(ts, exp)})
		o = outcome{Err: classify(err)}
		t1 := time.Now()
		if err == nil {
			o.Ver = r.Version
			o.Val = valStr(r.Value)
			ts.see(op.S, r.Version)
			if (seq || conc) && (r.Key != op.S || valStr(r.Value) != op.V || !expEq(r.ExpiresAt, exp)) {
				msg = fmt.Sprintf("CasByVersion(%q) returned a record with key %q value %q expiry %v, stored was key %q value %q expiry %v", op.S, r.Key, valStr(r.Value), r.ExpiresAt, op.S, op.V, exp)
			}
		}
		if seq && msg == "" {
			msg = w.m.applyCas(op.S, op.V, ver, exp, &o, t0, t1)
			w.shadow(func(m *model) string { oo := o; return m.applyCas(nrm(op.S), op.V, ver, exp, &oo, t0, t1) })
		}
		if conc {
			w.record(ts, "cas", op.S, op.V, ver, o, call)
		}
		if wmode && err == nil {
			w.newState(op.S, true, r.Version, call)
		}
		if err == nil {
			w.lastVal[op.S] = op.V
			w.lastFar[op.S] = exp == nil || time.Until(*exp) > 30*time.Minute
		}
	case "del":
		err := ts.cl.Delete(ctx, op.S)
		o = outcome{Err: classify(err)}
		t1 := time.Now()
		if seq {
			msg = w.m.applyDelete(op.S, &o, t0, t1)
			w.shadow(func(m *model) string { oo := o; return m.applyDelete(nrm(op.S), &oo, t0, t1) })
		}
		if conc {
			w.record(ts, "del", op.S, "", "", o, call)
		}
		if wmode && err == nil {
			w.newState(op.S, false, "", call)
		}
	case "list":
		it, err := ts.cl.ListKeys(ctx, op.S)
		o = outcome{Err: classify(err)}
		if err == nil {
			o.Keys = []string{}
			// the ways a caller may legally drain an Iterator (op.N): HasNext/Next pairs; an
			// "anything at all?" guard before the loop (HasNext twice in a row, HasNext is a
			// pure question); Next alone until it reports false; HasNext asked again after
			// the end
			switch op.N {
			case 1:
				if it.HasNext() {
					for it.HasNext() {
						k, ok := it.Next()
						if !ok {
							break
						}
						o.Keys = append(o.Keys, k)
					}
				}
			case 2:
				for {
					k, ok := it.Next()
					if !ok {
						break
					}
					o.Keys = append(o.Keys, k)
				}
			case 3:
				for it.HasNext() && it.HasNext() {
					k, ok := it.Next()
					if !ok {
						break
					}
					o.Keys = append(o.Keys, k)
				}
				if it.HasNext() {
					msg = "HasNext() is true after the iterator was drained"
				}
				if k, ok := it.Next(); ok {
					msg = fmt.Sprintf("Next() returned %q after the iterator was drained", k)
				}
			default:
				for it.HasNext() {
					k, ok := it.Next()
					if !ok {
						break
					}
					o.Keys = append(o.Keys, k)
				}
			}
			it.Close()
			sort.Strings(o.Keys)
		}
		t1 := time.Now()
		if seq {
			g, gerr := glob.Compile(op.S)
			if gerr != nil {
				e.HarnessError("bad pattern " + op.S)
				return
			}
			if msg == "" {
				msg = w.m.applyList(g.Match, &o, t0, t1)
				if msg != "" && strings.ContainsAny(op.S, "{}") {
					// would the outcome be right if braces were ordinary characters (the glob
					// dialect of Redis has no {a,b} alternatives; the contract refers to gobwas/glob)?
					lit := strings.NewReplacer("{", "\\{", "}", "\\}").Replace(op.S)
					if gl, err := glob.Compile(lit); err == nil {
						oo := o
						if w.m.applyList(gl.Match, &oo, t0, t1) == "" {
							w.braceLiteral = true
						}
					}
				}
			}
			w.shadow(func(m *model) string {
				gn, err := glob.Compile(nrm(op.S))
				if err != nil {
					return "pattern"
				}
				oo := o
				oo.Keys = nrms(o.Keys)
				return m.applyList(gn.Match, &oo, t0, t1)
			})
		}
	case "wait":
		w.doWait(ctx, ts, op, i, seq)
		return
	}
	if wmode && mutating {
		w.inFlight--
		now := time.Now()
		for _, k := range split(op.S) {
			w.dropPending(k) // no-op if the mutation succeeded (finalised above)
			w.lastMutRet[k] = now
			for _, f := range w.afterMut[k] {
				f()
			}
			delete(w.afterMut, k)
		}
		w.mutTok.Unlock()
	}
	cv.register(&o)
	w.reuseBuffers(ts)
	e.Logf("%s %s -> %s", ts.name, w.canon(op.String()), w.canon(o.String()))
	if strings.HasPrefix(o.Err, "other:") && w.netFaults && w.mode == "wait" {
		// only reads and dials are lost in this mode: a call that fails then has done nothing
		e.Probe("call_failed_by_broken_connection")
		return
	}
	if strings.HasPrefix(o.Err, "other:") && w.netFaults && w.mode == "conc" {
		// a message of this run was lost and a connection broke: the storage passes the error on
		e.Probe("call_failed_by_broken_connection")
		return
	}
	if strings.HasPrefix(o.Err, "other:") && (w.srvErrDuring(t0, time.Now()) || (len(w.srvErr) > 0 && strings.Contains(o.Err, "ERR injected"))) {
		// (a reply of the refusing server may also reach a later call on the same connection:
		// a pipeline that was cut short leaves its remaining replies behind)
		// the server refused to work during the call: the storage passes its error on
		e.Probe("call_failed_by_server_error")
		return
	}
	if strings.HasPrefix(o.Err, "other:") {
		e.Violate(w.prop(), "undocumented_error", "%s %s failed with an error outside the contract (no fault was injected): %s", ts.name, opDesc(op), o.Err[6:])
		return
	}
	aliased := false
	if w.mN != nil && w.shadowRan {
		// the shadow model identifies keys that differ only in leading slashes: when the
		// exact contract is broken at a point up to which the shadow contract explains
		// everything - this operation included - the violation is exactly "such keys are
		// one record" (a listed finding on the Redis backend), and nothing else
		okBefore := w.mNok
		if w.shadowMsg != "" {
			w.mNok = false
		}
		aliased = msg != "" && okBefore && w.shadowMsg == ""
		w.shadowRan, w.shadowMsg = false, ""
	}
	if msg != "" {
		oracle := "contract"
		if w.prop() == "C06" {
			oracle = "expired_not_as_deleted"
		}
		if w.braceLiteral {
			oracle = "brace_alternatives_taken_literally"
			msg += " - explained by: {a,b} alternatives of the pattern are taken as ordinary characters"
			w.stopJudging = true
		}
		if aliased {
			oracle = "leading_slash_keys_aliased"
			msg += " - explained by: keys that differ only in leading slashes are one record"
			w.stopJudging = true
		}
		e.Violate(w.prop(), oracle, "[%s backend] %s: %s", w.be.Kind, opDesc(op), msg)
	}
}

// expWrite: one record written in mode expwait (no deletes there).
type expWrite struct {
	inv, ret time.Time
	exp      *time.Time
}

// maybeAbsent: may the key have been absent at some instant of [a, b]? Generous
// (2 ms around expiry instants, a write counts from its invocation to its return).
func (w *world) maybeAbsent(key string, a, b time.Time) bool {
	ws := w.expWrites[key]
	if len(ws) == 0 || !a.After(ws[0].ret) {
		return true
	}
	for i, r := range ws {
		if r.exp == nil {
			continue
		}
		from := r.exp.Add(-2 * time.Millisecond)
		to := time.Time{}
		if i+1 < len(ws) {
			to = ws[i+1].ret
		}
		if !to.IsZero() && to.Before(from) {
			// replaced before it could expire: this record never made the key absent
			continue
		}
		// [from, to] (to open-ended for the last record) against [a, b]
		if !b.Before(from) && (to.IsZero() || !a.After(to)) {
			return true
		}
	}
	return false
}

// surelyAbsentFor: the longest stretch of [a, b] during which the key was surely
// absent (from a record's expiry to the invocation of the next write).
func (w *world) surelyAbsentFor(key string, a, b time.Time) time.Duration {
	var best time.Duration
	ws := w.expWrites[key]
	for i, r := range ws {
		if r.exp == nil {
			continue
		}
		s, e := *r.exp, b
		if i+1 < len(ws) && ws[i+1].inv.Before(e) {
			e = ws[i+1].inv
		}
		if s.Before(a) {
			s = a
		}
		if d := e.Sub(s); d > best {
			best = d
		}
	}
	return best
}

func (w *world) expWritesStr(key string) string {
	var p []string
	for _, r := range w.expWrites[key] {
		x := "no expiry"
		if r.exp != nil {
			x = "expires at +" + r.exp.Sub(w.e.Start).String()
		}
		p = append(p, fmt.Sprintf("[written +%v, %s]", r.inv.Sub(w.e.Start), x))
	}
	return strings.Join(p, " ")
}

// nrm is the key identification of the shadow model (knob slash_keys).
func nrm(k string) string { return strings.TrimLeft(k, "/") }

func nrms(ks []string) []string {
	out := make([]string, len(ks))
	for i, k := range ks {
		out[i] = nrm(k)
	}
	return out
}

func (w *world) shadow(f func(m *model) string) {
	if w.mN == nil {
		return
	}
	w.shadowRan = true
	w.shadowMsg = f(w.mN)
}

func opDesc(op sim.Op) string { return canonStr(op.String()) }

// canon replaces version strings by v1,v2,... in order of first appearance so
// that the trace hash does not depend on ULID entropy.
func (w *world) canon(s string) string { return canonStr(s) }

func (w *world) record(ts *taskState, kind, key, val, ver string, o outcome, call int64) {
	if w.e.Frozen() {
		return
	}
	if ts.name == "s0" && w.c.Knob("exp_phase", 0) == 1 {
		// sequential setup phase: it only defines the state the concurrent phase starts from
		if strings.HasPrefix(o.Err, "other:") && w.netFaults {
			w.skipKey[key] = true // a set-up write of unknown outcome: the start state of the key is not known
			return
		}
		st := w.initState[key]
		if o.Ver != "" {
			st.used = usedAdd(st.used, o.Ver)
		}
		if o.Err == "ok" {
			switch kind {
			case "create", "put", "cas":
				st.present, st.val, st.ver, st.unbound = true, val, o.Ver, false
			case "putmany":
				st.present, st.val, st.ver, st.unbound = true, val, "", true
			case "del":
				st.present, st.val, st.ver, st.unbound = false, "", "", false
			}
			if kind != "del" && kind != "get" && w.setupExpiring[key] {
				// the record expires before the concurrent phase starts: the key is absent then
				st.present, st.val, st.ver, st.unbound = false, "", "", false
			}
		}
		w.initState[key] = st
		if o.Err == "ok" && (kind == "create" || kind == "put" || kind == "cas") && o.Ver != "" {
			w.allVers[o.Ver] = fmt.Sprintf("%s(%s) by %s", kind, key, ts.name)
		}
		return
	}
	if at, ok := w.setupExpAt[key]; ok && !w.opStart[ts.name].After(at.Add(2*time.Millisecond)) {
		// this operation started before the setup record had safely expired (e.g. a
		// minimised case without the waiting step): the start state of the key is not
		// the one assumed, so its history is not judged
		w.skipKey[key] = true
	}
	if o.Err == "ok" && (kind == "create" || kind == "put" || kind == "cas") {
		what := fmt.Sprintf("%s(%s) by %s", kind, key, ts.name)
		if o.Ver == "" {
			w.e.Violate("C02", "version_reused", "%s returned an empty version", what)
		} else if prev, dup := w.allVers[o.Ver]; dup {
			w.e.Violate("C02", "version_reused", "%s returned version %s which %s had already been given", what, cv.of(o.Ver), prev)
		} else {
			w.allVers[o.Ver] = what
		}
	}
	ret := w.e.Stamp()
	if strings.HasPrefix(o.Err, "other:") && w.netFaults {
		// the connection broke during the call: a read told nothing; a write may or may not have
		// taken effect, at any moment from its invocation on, with a version nobody has seen
		if kind == "get" {
			return
		}
		o = outcome{Err: "maybe"}
		ret = 1 << 60
		w.e.Probe("write_with_unknown_outcome")
	}
	w.hist = append(w.hist, histOp{Client: ts.idx, Kind: kind, Key: key, Val: val, Ver: ver, Short: ts.short && kind != "get" && kind != "del", Out: o, Call: call, Ret: ret})
}

// ---------------------------------------------------------------------------
// C07 / C06 waits

// newState finalises the pending state of a successful mutation.
func (w *world) newState(key string, present bool, ver string, a int64) {
	if w.e.Frozen() {
		return
	}
	s := w.states[key]
	if n := len(s); n > 0 && s[n-1].pending {
		s[n-1] = keyState{present: present, ver: ver, known: ver != "", a: a, b: w.e.Stamp(), at: time.Now()}
		return
	}
	w.states[key] = append(s, keyState{present: present, ver: ver, known: ver != "", a: a, b: w.e.Stamp(), at: time.Now()})
}

// dropPending removes the pending state of a mutation that failed.
func (w *world) dropPending(key string) {
	s := w.states[key]
	if n := len(s); n > 0 && s[n-1].pending {
		w.states[key] = s[:n-1]
	}
}

func (w *world) curState(key string) keyState {
	s := w.states[key]
	if len(s) == 0 {
		return keyState{}
	}
	return s[len(s)-1]
}

func (w *world) doWait(ctx context.Context, ts *taskState, op sim.Op, i int, seq bool) {
	e := w.e
	key := op.S
	var ver string
	if w.mode == "wait" {
		cur := w.curState(key)
		switch op.N {
		case 0:
			ver = cur.ver
			if !cur.known {
				// unknown (PutMany) or absent: learn it while no mutation is in flight
				w.mutTok.Lock()
				if r, err := ts.cl.Get(ctx, key); err == nil {
					ver = r.Version
					if s := w.states[key]; len(s) > 0 && s[len(s)-1].present && !s[len(s)-1].known {
						s[len(s)-1].ver = ver
						s[len(s)-1].known = true
					}
				} else {
					ver = ts.pickVer(key, 2)
				}
				w.mutTok.Unlock()
			}
		case 1:
			ver = ts.pickVer(key, 1)
			for _, s := range w.states[key] {
				if s.present && s.known && s.ver != cur.ver {
					ver = s.ver
					break
				}
			}
		case 6:
			ver = "" // the zero value: any existing record differs from it
		default:
			ver = ts.pickVer(key, 2)
		}
	} else {
		ver = ts.pickVer(key, op.N)
	}
	wctx, cancel := context.WithCancel(ctx)
	defer cancel()
	ws := &waitState{task: ts.name, key: key, ver: ver, ctx: wctx}
	switch {
	case op.E == 0 && op.F:
		cancel()
		ws.cancelAt = time.Now()
		ws.cancelSt = e.Stamp()
	case op.E == 998 || op.E == 999:
		// cancelled exactly when somebody mutates the key (before / right after)
		f := func() {
			if ws.cancelAt.IsZero() {
				ws.cancelAt = time.Now()
				ws.cancelSt = e.Stamp()
			}
			e.Probe("cancel_at_mutation")
			cancel()
		}
		if op.E == 999 {
			w.beforeMut[key] = append(w.beforeMut[key], f)
		} else {
			w.afterMut[key] = append(w.afterMut[key], f)
		}
		// safety net: if nobody mutates the key any more, give up after 5s
		e.Spawn(fmt.Sprintf("%s.c%d", ts.name, i), func() {
			zsimrt.Sleep("canceller:sleep", 5*time.Second)
			if ws.cancelAt.IsZero() {
				ws.cancelAt = time.Now()
				ws.cancelSt = e.Stamp()
			}
			cancel()
		}, nil)
	case op.E > 0 && op.E < 998:
		n := int(op.E)
		e.Spawn(fmt.Sprintf("%s.c%d", ts.name, i), func() {
			for k := 0; k < n; k++ {
				zsimrt.Yield("canceller")
			}
			if ws.cancelAt.IsZero() {
				ws.cancelAt = time.Now()
				ws.cancelSt = e.Stamp()
			}
			cancel()
		}, nil)
	case op.E >= 1000 && (op.E/1000)%2 == 1:
		// a context with a deadline (the implementation can see it coming)
		// The context reports a deadline 1ms after the instant at which it is really
		// cancelled (by a canceller task): go-redis arms a connection deadline from
		// ctx.Deadline(), and two timers at exactly the same instant would race.
		d := time.Duration(op.E - 1000)
		ws.deadline = time.Now().Add(d)
		wctx = lateDeadlineCtx{wctx, ws.deadline.Add(time.Millisecond)}
		ws.ctx = wctx
		e.Spawn(fmt.Sprintf("%s.c%d", ts.name, i), func() {
			zsimrt.Sleep("canceller:sleep", d)
			if ws.cancelAt.IsZero() {
				ws.cancelAt = time.Now()
				ws.cancelSt = e.Stamp()
			}
			cancel()
		}, nil)
	case op.E >= 1000:
		d := time.Duration(op.E - 1000)
		e.Spawn(fmt.Sprintf("%s.c%d", ts.name, i), func() {
			zsimrt.Sleep("canceller:sleep", d)
			if ws.cancelAt.IsZero() {
				ws.cancelAt = time.Now()
				ws.cancelSt = e.Stamp()
			}
			cancel()
		}, nil)
	}
	ws.inv = e.Stamp()
	ws.invAt = time.Now()
	ws.active = true
	w.waits = append(w.waits, ws)
	ts.waiter = ws
	e.Probe("wait_started")
	err := ts.cl.WaitForVersionChange(wctx, key, ver)
	ctxDoneAtReturn := wctx.Err() != nil
	if ctxDoneAtReturn && ws.cancelAt.IsZero() {
		ws.cancelAt = time.Now()
		if !ws.deadline.IsZero() {
			ws.cancelAt = ws.deadline
		}
		ws.cancelSt = e.Stamp()
	}
	ws.active = false
	ts.waiter = nil
	ret := e.Stamp()
	t1 := time.Now()
	o := outcome{Err: classify(err)}
	if o.Err == "ctx" && !ctxDoneAtReturn && w.netFaults && err != nil {
		// an error that wraps a context error which is not the caller's (a dialer with its own
		// time limit): a storage failure, not "the context's error"
		o.Err = "other:" + err.Error()
	}
	e.Logf("%s wait %s ver=%s -> %s", ts.name, key, w.canonVer(ver), o.Err)
	e.Probe("wait_returned_" + strings.SplitN(o.Err, ":", 2)[0])
	if strings.HasPrefix(o.Err, "other:") && ctxDoneAtReturn {
		// the context is done and the call failed: whatever the transport made of the
		// cancellation (e.g. an i/o timeout from a connection deadline) is the cancel outcome
		e.Probe("wait_cancel_reported_as_transport_error")
		o.Err = "ctx"
	}
	if strings.HasPrefix(o.Err, "other:") && w.netFaults {
		// a poll was lost with its connection (and the next dial failed): the storage passes the error on
		e.Probe("wait_failed_by_broken_connection")
		return
	}
	if strings.HasPrefix(o.Err, "other:") && (w.srvErrDuring(ws.invAt, t1) || (len(w.srvErr) > 0 && strings.Contains(o.Err, "ERR injected"))) {
		// a poll met a server that refused to work: the storage passes its error on
		e.Probe("wait_failed_by_server_error")
		return
	}
	if strings.HasPrefix(o.Err, "other:") {
		e.Violate(w.prop(), "undocumented_error", "%s WaitForVersionChange(%q) failed with an error outside the contract: %s", ts.name, key, o.Err[6:])
		return
	}
	if o.Err == "ctx" && !ctxDoneAtReturn && w.prop() == "C07" {
		left := time.Duration(0)
		if !ws.deadline.IsZero() {
			left = time.Until(ws.deadline)
		}
		e.Violate("C07", "invented_cancel", "WaitForVersionChange(%q) of %s returned the context's error although its context was not done at that moment (deadline still %v away): a change before the deadline would have been missed", key, ts.name, left)
		return
	}
	if seq {
		if msg := w.m.applyWait(key, ver, &o, ws.invAt, t1); msg != "" {
			e.Violate(w.prop(), "expired_not_as_deleted", "[%s backend] %s", w.be.Kind, msg)
			return
		}
		// promptness of the expiry wake-up
		if o.Err == "ErrNotExist" {
			if r, ok := w.m.recs[key]; ok && r.exp != nil {
				_ = r
			}
		}
		return
	}
	if w.mode == "expwait" {
		_, written := w.expAt[key]
		if !written || ver == "" || strings.HasPrefix(ver, "01BOGUS") {
			return // the record was not there when the waiter started: nothing to judge
		}
		slack := w.pollBound + 8*e.RT.MaxParked
		switch o.Err {
		case "ErrNotExist":
			if !w.maybeAbsent(key, ws.invAt, t1) {
				if w.prop() == "C07" {
					e.Violate("C07", "invented_absence", "[%s backend] WaitForVersionChange(%q) of %s returned ErrNotExist, but the key was present during the whole call (records written: %s)", w.be.Kind, key, ts.name, w.expWritesStr(key))
				} else {
					e.Violate("C06", "live_record_dropped", "[%s backend] WaitForVersionChange(%q) of %s returned ErrNotExist although the record of the key had not expired at any moment of the call: a record whose expiration lies in the future was dropped (records written: %s)", w.be.Kind, key, ts.name, w.expWritesStr(key))
				}
			} else {
				e.Probe("waiter_released_by_expiry")
			}
		case "ctx":
			if gone := w.surelyAbsentFor(key, ws.invAt, ws.cancelAt); gone > slack {
				if w.prop() == "C07" {
					e.Violate("C07", "not_prompt_after_expiry", "[%s backend] WaitForVersionChange(%q) of %s was still blocked %v after the record had expired (the key is absent from then on) and ended only with its context: it must return ErrNotExist promptly", w.be.Kind, key, ts.name, gone)
				} else {
					e.Violate("C06", "expired_not_as_deleted", "[%s backend] WaitForVersionChange(%q) of %s (one of several waiters on the key) was still blocked %v after the record expired and ended only with its context: an expired record must end the wait with ErrNotExist", w.be.Kind, key, ts.name, gone)
				}
			} else {
				e.Probe("waiter_cancelled_before_expiry")
			}
		}
		return
	}
	if w.mode != "wait" {
		return
	}
	// soundness against the state timeline (C07 oracle 1)
	states := append([]keyState{{present: false, a: 0, b: 0}}, w.states[key]...)
	okRes := false
	switch o.Err {
	case "ok":
		for k, s := range states {
			if !s.present || (s.known && s.ver == ver) {
				continue
			}
			if w.lifetimeIntersects(states, k, ws.inv, ret) {
				okRes = true
			}
		}
		if !okRes {
			e.Violate("C07", "invented_change", "WaitForVersionChange(%q, %s) of %s returned nil, but during the call the key never existed with another version (states: %s)", key, w.canonVer(ver), ts.name, w.statesStr(states))
		}
	case "ErrNotExist":
		for k, s := range states {
			if s.present {
				continue
			}
			if w.lifetimeIntersects(states, k, ws.inv, ret) {
				okRes = true
			}
		}
		if !okRes {
			e.Violate("C07", "invented_absence", "WaitForVersionChange(%q) of %s returned ErrNotExist, but the key was present during the whole call (states: %s)", key, ts.name, w.statesStr(states))
		}
	case "ctx":
		if ws.cancelSt == 0 || ws.cancelSt > ret {
			e.Violate("C07", "invented_cancel", "WaitForVersionChange(%q) of %s returned the context's error although its context was not cancelled", key, ts.name)
		}
	}
}

// lateDeadlineCtx is a cancellable context that also reports a deadline.
type lateDeadlineCtx struct {
	context.Context
	dl time.Time
}

func (c lateDeadlineCtx) Deadline() (time.Time, bool) { return c.dl, true }

// lifetime of state k: from the invocation of the mutation that produced it
// until the return of the next mutation.
func (w *world) lifetimeIntersects(states []keyState, k int, inv, ret int64) bool {
	from := states[k].a
	to := int64(1) << 62
	if k+1 < len(states) {
		to = states[k+1].b
	}
	return from <= ret && inv <= to
}

func (w *world) statesStr(states []keyState) string {
	var p []string
	for _, s := range states {
		if s.present {
			p = append(p, fmt.Sprintf("[%d..%d present %s]", s.a, s.b, w.canonVer(s.ver)))
		} else {
			p = append(p, fmt.Sprintf("[%d..%d absent]", s.a, s.b))
		}
	}
	return strings.Join(p, " ")
}

// promptness (C07 oracle 2): called when nothing is runnable and between steps
func (w *world) checkPrompt(idle bool) {
	if w.mode != "wait" || w.inFlight > 0 {
		return
	}
	e := w.e
	if e.RT.Stalled() > 0 {
		// a stalled thread is neither parked in the call nor late by the library's doing; its
		// stall counts into RT.MaxParked once it is over
		return
	}
	now := time.Now()
	for _, ws := range w.waits {
		if !ws.active {
			continue
		}
		cur := w.curState(ws.key)
		var since time.Time
		reason := ""
		switch {
		case !ws.cancelAt.IsZero():
			since, reason = ws.cancelAt, "its context was cancelled"
		case !cur.present:
			since, reason = w.lastMutRet[ws.key], "the key is absent"
			if since.IsZero() {
				since = ws.invAt
			}
		case !cur.known || cur.ver != ws.ver:
			since, reason = w.lastMutRet[ws.key], "the key has another version"
			if since.IsZero() || since.Before(ws.invAt) {
				since = ws.invAt
			}
		default:
			continue
		}
		if since.Before(ws.invAt) {
			since = ws.invAt
		}
		if w.be.Kind == backend.InMem {
			if idle {
				e.Violate("C07", "lost_wakeup", "nothing is runnable, yet WaitForVersionChange(%q, %s) of %s is still parked although %s (since %v): lost wake-up; waiter table: %s", ws.key, w.canonVer(ws.ver), ws.task, reason, now.Sub(since), w.waiterTable())
				return
			}
		} else if now.Sub(since) > w.pollBound+8*e.RT.MaxParked+w.srvErrOverlap(since, now) {
			e.Violate("C07", "not_prompt", "WaitForVersionChange(%q, %s) of %s has not returned %v after %s (bound %v = 2.5 x the documented maximal poll interval)", ws.key, w.canonVer(ws.ver), ws.task, now.Sub(since), reason, w.pollBound)
			return
		}
	}
}

func (w *world) waiterTable() string {
	n, m := w.be.Waiters()
	return fmt.Sprintf("%d entries, %d registered", n, m)
}

func (w *world) Invariant(e *sim.Env) {
	if w.mode == "wait" && w.be != nil && w.be.Kind == backend.Redis {
		w.checkPrompt(false)
	}
}

func (w *world) Idle(e *sim.Env) {
	if w.mode == "wait" && w.be != nil {
		w.checkPrompt(true)
	}
}

func (w *world) Quiet(e *sim.Env) bool {
	if w.mode == "wait" {
		w.checkPrompt(true)
		if len(e.Res.Violations) > 0 {
			return true
		}
	}
	if w.mode == "conc" || w.mode == "seq" {
		// no timers, no waits in these modes: storage calls that never return are a deadlock
		e.Violate(w.prop(), "stuck", "[%s backend] storage calls are outstanding but no goroutine can run any more: %s", w.be.Kind, strings.Join(e.RT.All(), "; "))
		return true
	}
	e.Inconclusive("quiet horizon reached with work remaining: " + strings.Join(e.RT.All(), "; "))
	return true
}

func (w *world) Finished(e *sim.Env) bool {
	if w.nDone < len(w.tasks) {
		return false
	}
	if w.phase == 0 {
		w.phase = 1
		switch w.mode {
		case "conc":
			// linearizability is checked after the bubble (Post)
		case "wait":
			if n, m := w.be.Waiters(); n != 0 || m != 0 {
				e.Violate("C07", "bookkeeping_left", "all waiters are gone but the waiter table still has %d entries (%d registered waiters)", n, m)
			}
		}
		e.Res.Probes["grace_window_comparisons"] += int64(w.m.InWindow)
	}
	return true
}

func (w *world) Teardown(e *sim.Env) {
	if w.be != nil {
		w.be.Close()
	}
}
