// Package kv is the simulation world for the kvs.Storage backends
// (C02, C03, C06, C07): real inmem / real Redis client + miniredis over the
// simulated transport, against a small executable reference model.
package kv

import (
	"fmt"
	"sort"
	"strings"
	"time"
)

// outcome of one storage call, in backend-independent terms.
type outcome struct {
	Err   string // "ok", "ErrExist", "ErrNotExist", "ErrConflict", "ctx", "other:<text>"
	Found bool
	Val   string
	Ver   string
	Exp   *time.Time
	Many  []*outcome // GetMany: per requested key (nil entry = not found)
	Keys  []string   // ListKeys (sorted)
}

func (o *outcome) String() string {
	if o == nil {
		return "<nil>"
	}
	s := o.Err
	if o.Found {
		s += fmt.Sprintf(" val=%q ver=%s", o.Val, o.Ver)
		if o.Exp != nil {
			s += " exp=" + o.Exp.UTC().Format("15:04:05.000000")
		}
	} else if o.Ver != "" {
		s += " ver=" + o.Ver
	}
	if o.Many != nil {
		var p []string
		for _, m := range o.Many {
			if m == nil {
				p = append(p, "-")
			} else {
				p = append(p, fmt.Sprintf("%q/%s", m.Val, m.Ver))
			}
		}
		s += " [" + strings.Join(p, " ") + "]"
	}
	if o.Keys != nil {
		s += " keys=" + strings.Join(o.Keys, ",")
	}
	return s
}

func shortV(v string) string { return cv.of(v) }

// reference model -----------------------------------------------------------

type mrec struct {
	val     string
	ver     string
	unbound bool // written by PutMany: version not returned, bound at first observation
	exp     *time.Time
	lag     time.Duration // how long the backend may legitimately keep the record past exp (network latency)
	// wret: when the writing call returned. A backend that stores relative lifetimes cannot store
	// a non-positive one (the Redis backend writes 1ms instead): a record whose ExpiresAt had
	// passed by the time it was written may live until shortly after the write
	wret time.Time
}

type model struct {
	recs map[string]*mrec
	used map[string]bool // every version ever observed
	// grace window around expiry instants (C06): within it both answers are accepted
	grace time.Duration
	// over a slow network a relative TTL starts to count when the writing command reaches
	// the server: a record outlives its ExpiresAt by one one-way trip (the transport delivers
	// the commands of one pipeline or transaction together)
	LagWrite, LagCas time.Duration
	// OwnStall: how long the calling goroutine has been stalled by the scheduler during the
	// operation being judged (a slow thread is legal; its own slowness is added to every bound
	// on how late the call may notice something)
	OwnStall func() time.Duration
	// number of comparisons that fell into a grace window
	InWindow int
	// LaxVersions: do not judge version strings (C06 is about existence only)
	LaxVersions bool
}

func newModel(grace time.Duration) *model {
	return &model{recs: map[string]*mrec{}, used: map[string]bool{}, grace: grace}
}

// liveness of key during [t0,t1]: 1 live, 0 dead, -1 either (in the window)
func (m *model) liveness(key string, t0, t1 time.Time) int {
	r, ok := m.recs[key]
	if !ok {
		return 0
	}
	if r.exp == nil {
		return 1
	}
	if t1.Add(m.grace).Before(*r.exp) {
		return 1
	}
	if r.exp.Before(t0.Add(-m.grace-r.lag)) && r.wret.Add(time.Millisecond+m.grace).Before(t0) {
		return 0
	}
	return -1
}

func (m *model) drop(key string) { delete(m.recs, key) }

// bind checks the version the implementation reported for an existing record.
func (m *model) bind(key, ver string) string {
	r := m.recs[key]
	if m.LaxVersions {
		r.ver, r.unbound = ver, false
		return ""
	}
	if r.unbound {
		if ver == "" {
			return fmt.Sprintf("record %q written by PutMany has an empty version", key)
		}
		if m.used[ver] {
			return fmt.Sprintf("record %q written by PutMany carries version %s which was handed out before: the write gave it no new version", key, shortV(ver))
		}
		r.ver, r.unbound = ver, false
		m.used[ver] = true
		return ""
	}
	if r.ver != ver {
		return fmt.Sprintf("record %q has version %s, the last write returned %s", key, shortV(ver), shortV(r.ver))
	}
	return ""
}

func (m *model) fresh(what, ver string) string {
	if m.LaxVersions {
		return ""
	}
	if ver == "" {
		return what + " returned an empty version"
	}
	if m.used[ver] {
		return fmt.Sprintf("%s returned version %s which was handed out before", what, shortV(ver))
	}
	m.used[ver] = true
	return ""
}

func expEq(a, b *time.Time) bool {
	if a == nil || b == nil {
		return a == nil && b == nil
	}
	return a.Equal(*b)
}

// checkRead compares a found record with the model's.
func (m *model) checkRead(key string, o *outcome) string {
	r := m.recs[key]
	if msg := m.bind(key, o.Ver); msg != "" {
		return msg
	}
	if r.val != o.Val {
		return fmt.Sprintf("record %q has value %q, last written %q", key, o.Val, r.val)
	}
	if !expEq(r.exp, o.Exp) {
		return fmt.Sprintf("record %q has expiry %v, last written %v", key, o.Exp, r.exp)
	}
	return ""
}

// apply* functions return "" if the outcome is what the contract prescribes,
// otherwise a description. They update the model (following the
// implementation inside a grace window).

func (m *model) views(key string, t0, t1 time.Time) []bool {
	switch m.liveness(key, t0, t1) {
	case 1:
		return []bool{true}
	case 0:
		return []bool{false}
	}
	m.InWindow++
	return []bool{true, false}
}

func (m *model) applyCreate(key, val string, exp *time.Time, o *outcome, t0, t1 time.Time) string {
	var msgs []string
	for _, live := range m.views(key, t0, t1) {
		if live {
			if o.Err != "ErrExist" {
				msgs = append(msgs, fmt.Sprintf("Create(%q) on a present key returned %s, want ErrExist", key, o.Err))
				continue
			}
			if msg := m.bind(key, o.Ver); msg != "" {
				msgs = append(msgs, "Create with ErrExist must report the stored version: "+msg)
				continue
			}
			return ""
		}
		if o.Err != "ok" {
			msgs = append(msgs, fmt.Sprintf("Create(%q) on an absent/expired key returned %s, want success", key, o.Err))
			continue
		}
		if msg := m.fresh("Create", o.Ver); msg != "" {
			msgs = append(msgs, msg)
			continue
		}
		m.recs[key] = &mrec{val: val, ver: o.Ver, exp: exp, lag: m.LagWrite, wret: time.Now()}
		return ""
	}
	return strings.Join(msgs, " | ")
}

func (m *model) applyGet(key string, o *outcome, t0, t1 time.Time) string {
	var msgs []string
	for _, live := range m.views(key, t0, t1) {
		if live {
			if o.Err != "ok" || !o.Found {
				msgs = append(msgs, fmt.Sprintf("Get(%q) on a present, unexpired key returned %s", key, o.Err))
				continue
			}
			if msg := m.checkRead(key, o); msg != "" {
				msgs = append(msgs, msg)
				continue
			}
			return ""
		}
		if o.Err != "ErrNotExist" {
			msgs = append(msgs, fmt.Sprintf("Get(%q) on an absent/expired key returned %s, want ErrNotExist", key, o.Err))
			continue
		}
		m.drop(key)
		return ""
	}
	return strings.Join(msgs, " | ")
}

func (m *model) applyGetMany(keys []string, o *outcome, t0, t1 time.Time) string {
	if o.Err != "ok" {
		return "GetMany returned " + o.Err
	}
	if len(o.Many) != len(keys) {
		return fmt.Sprintf("GetMany(%v) returned %d entries", keys, len(o.Many))
	}
	for i, k := range keys {
		sub := o.Many[i]
		var so outcome
		if sub == nil {
			so = outcome{Err: "ErrNotExist"}
		} else {
			so = *sub
			so.Err = "ok"
			so.Found = true
		}
		if msg := m.applyGet(k, &so, t0, t1); msg != "" {
			return "GetMany: " + msg
		}
	}
	return ""
}

func (m *model) applyPut(key, val string, exp *time.Time, o *outcome) string {
	if o.Err != "ok" {
		return fmt.Sprintf("Put(%q) returned %s", key, o.Err)
	}
	if msg := m.fresh("Put", o.Ver); msg != "" {
		return msg
	}
	if o.Val != val {
		return fmt.Sprintf("Put(%q) returned a record with value %q, written %q", key, o.Val, val)
	}
	m.recs[key] = &mrec{val: val, ver: o.Ver, exp: exp, lag: m.LagWrite, wret: time.Now()}
	return ""
}

func (m *model) applyPutMany(keys, vals []string, exps []*time.Time, o *outcome) string {
	if o.Err != "ok" {
		return "PutMany returned " + o.Err
	}
	for i, k := range keys {
		// a key repeated in the batch: the last record wins
		m.recs[k] = &mrec{val: vals[i], unbound: true, exp: exps[i], lag: m.LagWrite, wret: time.Now()}
	}
	return ""
}

func (m *model) applyCas(key, val, ver string, exp *time.Time, o *outcome, t0, t1 time.Time) string {
	var msgs []string
	for _, live := range m.views(key, t0, t1) {
		if !live {
			if o.Err != "ErrNotExist" {
				msgs = append(msgs, fmt.Sprintf("CasByVersion(%q) on an absent/expired key returned %s, want ErrNotExist", key, o.Err))
				continue
			}
			m.drop(key)
			return ""
		}
		r := m.recs[key]
		match := !r.unbound && r.ver == ver
		if r.unbound && !m.used[ver] && ver != "" && o.Err == "ok" {
			// the caller guessed the not yet observed version: impossible for
			// generated programs; treat as mismatch
			match = false
		}
		if match {
			if o.Err != "ok" {
				msgs = append(msgs, fmt.Sprintf("CasByVersion(%q) with the current version returned %s, want success", key, o.Err))
				continue
			}
			if msg := m.fresh("CasByVersion", o.Ver); msg != "" {
				msgs = append(msgs, msg)
				continue
			}
			m.recs[key] = &mrec{val: val, ver: o.Ver, exp: exp, lag: m.LagCas, wret: time.Now()}
			return ""
		}
		if o.Err != "ErrConflict" {
			msgs = append(msgs, fmt.Sprintf("CasByVersion(%q) with a stale/unknown version returned %s, want ErrConflict", key, o.Err))
			continue
		}
		return ""
	}
	return strings.Join(msgs, " | ")
}

func (m *model) applyDelete(key string, o *outcome, t0, t1 time.Time) string {
	var msgs []string
	for _, live := range m.views(key, t0, t1) {
		if live {
			if o.Err != "ok" {
				msgs = append(msgs, fmt.Sprintf("Delete(%q) on a present key returned %s", key, o.Err))
				continue
			}
			m.drop(key)
			return ""
		}
		if o.Err != "ErrNotExist" {
			msgs = append(msgs, fmt.Sprintf("Delete(%q) on an absent/expired key returned %s, want ErrNotExist", key, o.Err))
			continue
		}
		m.drop(key)
		return ""
	}
	return strings.Join(msgs, " | ")
}

func (m *model) applyList(match func(string) bool, o *outcome, t0, t1 time.Time) string {
	if o.Err != "ok" {
		return "ListKeys returned " + o.Err
	}
	got := map[string]bool{}
	for _, k := range o.Keys {
		if got[k] {
			return fmt.Sprintf("ListKeys returned key %q twice", k)
		}
		got[k] = true
	}
	var keys []string
	for k := range m.recs {
		keys = append(keys, k)
	}
	sort.Strings(keys)
	for _, k := range keys {
		if !match(k) {
			if got[k] {
				return fmt.Sprintf("ListKeys returned %q which does not match the pattern", k)
			}
			continue
		}
		switch m.liveness(k, t0, t1) {
		case 1:
			if !got[k] {
				return fmt.Sprintf("ListKeys omitted the present key %q (returned %v)", k, o.Keys)
			}
		case 0:
			if got[k] {
				return fmt.Sprintf("ListKeys returned the expired key %q", k)
			}
		default:
			m.InWindow++
		}
		delete(got, k)
	}
	for k := range got {
		return fmt.Sprintf("ListKeys returned %q which was never written or was deleted", k)
	}
	return ""
}

func (m *model) ownStall() time.Duration {
	if m.OwnStall == nil {
		return 0
	}
	return m.OwnStall()
}

// applyWait: a sequential WaitForVersionChange (C06: on an expired key).
func (m *model) applyWait(key, ver string, o *outcome, t0, t1 time.Time) string {
	// the record may expire during the wait: dead if dead at t1
	l1 := m.liveness(key, t1, t1)
	l0 := m.liveness(key, t0, t0)
	r := m.recs[key]
	switch o.Err {
	case "ErrNotExist":
		if l1 == 1 && l0 == 1 {
			return fmt.Sprintf("WaitForVersionChange(%q) returned ErrNotExist but the key is present and unexpired", key)
		}
		m.drop(key)
		return ""
	case "ok":
		if l0 == 0 {
			return fmt.Sprintf("WaitForVersionChange(%q) returned nil but the key is absent/expired", key)
		}
		if r != nil && !r.unbound && r.ver == ver {
			return fmt.Sprintf("WaitForVersionChange(%q) returned nil but the version did not change", key)
		}
		return ""
	case "ctx":
		// a polling backend may need its poll interval to notice; 250ms = 2.5 x the
		// documented maximal interval
		if own := m.ownStall(); l1 == 0 && own > 0 {
			// the calling thread was stalled during the call: what counts is the time it had to
			// notice the absence - since the call began or the record expired, less its own stall.
			// When it had none before its context ended, the context's error is as true as ErrNotExist
			since := t0
			if r != nil && r.exp != nil && r.exp.After(t0) {
				since = *r.exp
			}
			if t1.Sub(since)-own <= 250*time.Millisecond {
				return ""
			}
		}
		if l1 == 0 && (r == nil || r.exp == nil || t1.Sub(*r.exp) > 250*time.Millisecond) {
			return fmt.Sprintf("WaitForVersionChange(%q) ran into its deadline although the key is absent/expired (expired %v before the call returned): an expired record must end the wait with ErrNotExist", key, expiredFor(r, t1))
		}
		if own := m.ownStall(); own > 0 && t1.Sub(t0)-own <= 250*time.Millisecond {
			// stalled for (nearly) the whole call: its context ended before it got to look
			return ""
		}
		if r != nil && (r.unbound || r.ver != ver) && l1 == 1 {
			return fmt.Sprintf("WaitForVersionChange(%q) ran into its deadline although the version differs", key)
		}
		return ""
	}
	return fmt.Sprintf("WaitForVersionChange(%q) returned %s", key, o.Err)
}

func expiredFor(r *mrec, t time.Time) time.Duration {
	if r == nil || r.exp == nil {
		return 0
	}
	return t.Sub(*r.exp)
}
