package kv

import (
	"fmt"
	"strings"
	"time"

	"verifharness/sim"
)

type gen struct {
	r        *sim.Rng
	nval     int
	patterns []string
}

func (g *gen) val() string {
	g.nval++
	if g.r.Chance(1, 12) {
		return "" // empty / nil value
	}
	if g.r.Chance(1, 15) {
		return "@ver" // the value names the version it replaces (put, cas)
	}
	return fmt.Sprintf("x%d", g.nval)
}

func sched(r *sim.Rng, shortest time.Duration, maxSteps int) sim.SchedCfg {
	F := sim.Pick(r, 16, 64, 256)
	prof := sim.Pick(r, int64(10), int64(1000), int64(20000))
	capJ := int64(shortest) / int64(16*F)
	if capJ < 1 {
		capJ = 1
	}
	if prof > capJ {
		prof = capJ
	}
	s := sim.SchedCfg{F: F, MaxJitter: prof, StickyPct: sim.Pick(r, 0, 30, 70, 90), MaxSteps: maxSteps, HorizonNs: int64(time.Minute)}
	if r.Chance(1, 4) {
		s.PCTDepth = 2 + r.Intn(4)
		s.PCTLen = 300
	}
	return s
}

// Generate builds a case for C02, C03, C06 or C07.
func Generate(r *sim.Rng, prop, tier string, idx int) *sim.Case {
	c := &sim.Case{World: "kv", Prop: prop, Knobs: map[string]int64{}}
	// both backends in every tier; Redis runs cost ~10x more
	backendKind := int64(0)
	pct := 25
	if prop == "C03" || prop == "C06" {
		pct = 40
	}
	if r.Intn(100) < pct {
		backendKind = 1
	}
	c.Knobs["backend"] = backendKind
	if backendKind == 1 && prop != "C07" && r.Chance(1, 4) {
		// commands take a while to reach the server (C07's promptness bound is about a fast network)
		c.Knobs["net_latency_ns"] = int64(sim.Pick(r, 200*time.Microsecond, 3*time.Millisecond, 40*time.Millisecond))
	}
	if backendKind == 1 && r.Chance(1, 3) {
		// SCAN answered in small pages, with empty pages in between, as a real server does
		c.Knobs["scan_page"] = int64(sim.Pick(r, 1, 2, 3, 7))
		c.Knobs["scan_empty_pages"] = int64(sim.Pick(r, 0, 1, 2, 3))
	}
	if backendKind == 1 && r.Chance(1, 5) {
		c.Knobs["redis_clock_skew_ns"] = int64(sim.Pick(r, -time.Hour, -3*time.Second, 3*time.Second, time.Hour))
	}
	if r.Chance(1, 4) {
		c.Knobs["reuse_buffers"] = 1 // callers overwrite their value buffers after every call
	}
	if r.Chance(1, 3) {
		c.Knobs["caller_versions"] = 1 // Create/Put are handed records that carry a version read earlier
	}
	g := &gen{r: r}
	switch prop {
	case "C02":
		genC02(g, c, tier)
	case "C03":
		genC03(g, c, tier)
	case "C06":
		genC06(g, c, tier)
	default:
		genC07(g, c, tier)
	}
	if prop == "C02" && backendKind == 1 && c.Mode == "conc" && r.Chance(1, 4) {
		// lost messages: the n-th burst of commands of the run (any connection) or its reply is
		// lost and the connection breaks
		for i := 0; i < 1+r.Intn(2); i++ {
			c.Faults = append(c.Faults, sim.Fault{Seam: "net", Kind: sim.Pick(r, "req_lost", "reply_lost", "reply_lost"), Ord: int64(2 + r.Intn(40))})
		}
	}
	if r.Chance(1, 6) {
		// stalled threads: a goroutine that could run (here: a caller inside WaitForVersionChange)
		// does not get a processor for a while
		c.Sched.StallPermille = sim.Pick(r, 3, 20, 60)
		c.Sched.StallMaxNs = int64(sim.Pick(r, time.Millisecond, 50*time.Millisecond, 2*time.Second))
	}
	if c.Mode == "expwait" && r.Chance(1, 2) {
		// waiters pass few scheduling points: stall them often, and for longer than a record lives
		c.Sched.StallPermille = 300
		c.Sched.StallMaxNs = int64(sim.Pick(r, 50*time.Millisecond, 500*time.Millisecond, 5*time.Second))
	}
	return c
}

func (g *gen) expiryFar() int64 {
	switch g.r.Intn(9) {
	case 0, 1, 2:
		return int64(time.Hour)
	case 3:
		// "practically never": instants beyond what fits nanoseconds-since-1970 in an int64
		return sim.Pick(g.r, FarExpiry2500, FarExpiry9999, FarExpiryBeyond, int64(200*365*24*time.Hour))
	}
	return 0
}

// casRef picks the version reference of a CAS: the latest seen (0), the first
// seen (1), a foreign one (2) or a near miss of the latest (3..5: letter case
// changed, a blank appended, the last character cut off).
func (g *gen) casRef(weights ...int) int64 {
	if g.r.Chance(1, 8) {
		return int64(3 + g.r.Intn(3))
	}
	if g.r.Chance(1, 12) {
		return 6 // the zero value: a record whose Version was never filled in
	}
	return int64(weights[g.r.Intn(len(weights))])
}

func genC02(g *gen, c *sim.Case, tier string) {
	r := g.r
	c.Mode = "conc"
	c.Sched = sched(r, time.Second, 40000)
	keys := []string{"a", "b", "c"}[:1+r.Intn(3)]
	if r.Chance(1, 6) {
		// distinct keys that a normalising or formatting key mapping would merge
		keys = sim.Pick(r, []string{"a", "a/"}, []string{"dir/x", "dir//x"}, []string{"a", "a/.."}, []string{"k", "k "}, []string{"a", "A"},
			[]string{"p%20q", "p%22q"}, []string{"a", "a*"}, []string{"ab", "a", "abc"})
	}
	nt := 2 + r.Intn(3)
	maxOps := 6
	if tier == "thorough" && r.Chance(1, 3) {
		nt = 2 + r.Intn(4)
		maxOps = 10
	}
	if r.Chance(1, 4) {
		c.Knobs["shared_client"] = 1
	}
	if r.Chance(1, 8) {
		// two phases with a long pause in between: racing writes some of which carry a short
		// expiry (and a read that pins their order), then - after everything short-lived has
		// expired, marked by a tick in the history - reads and creates. What survives the pause
		// is decided by the write that came last, whoever raced with it
		delete(c.Knobs, "net_latency_ns")
		c.Knobs["ttl_race"] = 1
		k := keys[0]
		short := int64(300 * time.Millisecond)
		for t := 0; t < 2+r.Intn(2); t++ {
			task := sim.Task{Name: fmt.Sprintf("t%d", t)}
			for i := 0; i < 1+r.Intn(2); i++ {
				d := sim.Pick(r, short, short, int64(0), int64(time.Hour))
				switch r.Intn(5) {
				case 0:
					task.Ops = append(task.Ops, sim.Op{K: "put", S: k, V: g.val(), D: d})
				case 1, 2:
					g.nval++
					task.Ops = append(task.Ops, sim.Op{K: "putmany", S: k, V: fmt.Sprintf("x%d", g.nval), D: d})
				case 3:
					task.Ops = append(task.Ops, sim.Op{K: "create", S: k, V: g.val(), D: d})
				default:
					task.Ops = append(task.Ops, sim.Op{K: "get", S: k})
					task.Ops = append(task.Ops, sim.Op{K: "cas", S: k, V: g.val(), N: 0, D: d})
				}
			}
			task.Ops = append(task.Ops, sim.Op{K: "get", S: k})
			task.Ops = append(task.Ops, sim.Op{K: "jump", D: int64(3 * time.Second)})
			task.Ops = append(task.Ops, sim.Op{K: sim.Pick(r, "get", "get", "create"), S: k, V: g.val(), D: int64(time.Hour)})
			task.Ops = append(task.Ops, sim.Op{K: "get", S: k})
			c.Tasks = append(c.Tasks, task)
		}
		c.Tasks = append(c.Tasks, sim.Task{Name: "zt", Ops: []sim.Op{{K: "jump", D: int64(1500 * time.Millisecond)}, {K: "tick"}}})
		return
	}
	// swarm: some runs use only a random subset of the operation kinds, which makes
	// particular races (create/delete, cas/cas, putmany/get ...) much denser
	allowed := map[int]bool{}
	if r.Chance(1, 2) {
		for len(allowed) < 3+r.Intn(4) {
			allowed[r.Intn(12)] = true
		}
	}
	expPhase := r.Chance(1, 5)
	if expPhase {
		// a setup task writes records some of which expire, time passes, and only then
		// the concurrent phase starts: expired records are still physically around in a
		// lazily expiring backend when the racing operations arrive
		c.Knobs["exp_phase"] = 1
		setup := sim.Task{Name: "s0"}
		for _, k := range keys {
			d := int64(sim.Pick(r, 5*time.Millisecond, 20*time.Millisecond, 0, 5*time.Millisecond))
			switch r.Intn(3) {
			case 0:
				setup.Ops = append(setup.Ops, sim.Op{K: "create", S: k, V: g.val(), D: d})
			case 1:
				setup.Ops = append(setup.Ops, sim.Op{K: "put", S: k, V: g.val(), D: d})
			default:
				g.nval++
				setup.Ops = append(setup.Ops, sim.Op{K: "putmany", S: k, V: fmt.Sprintf("x%d", g.nval), D: d})
			}
		}
		c.Tasks = append(c.Tasks, setup)
	}
	// optional preface by task 0 creating some keys so that CAS/Delete races have a target
	for t := 0; t < nt; t++ {
		task := sim.Task{Name: fmt.Sprintf("t%d", t)}
		n := 3 + r.Intn(maxOps)
		if expPhase {
			task.Ops = append(task.Ops, sim.Op{K: "jump", D: int64(100 * time.Millisecond)})
		}
		for i := 0; i < n; i++ {
			k := keys[r.Intn(len(keys))]
			kind := r.Intn(12)
			for tries := 0; len(allowed) > 0 && !allowed[kind] && tries < 50; tries++ {
				kind = r.Intn(12)
			}
			switch kind {
			case 0, 1, 2:
				task.Ops = append(task.Ops, sim.Op{K: "create", S: k, V: g.val(), D: g.expiryFar()})
			case 3, 4:
				task.Ops = append(task.Ops, sim.Op{K: "get", S: k})
			case 5:
				task.Ops = append(task.Ops, sim.Op{K: "put", S: k, V: g.val(), D: g.expiryFar()})
			case 6, 7, 8:
				task.Ops = append(task.Ops, sim.Op{K: "cas", S: k, V: g.val(), N: g.casRef(0, 0, 0, 1, 2), D: g.expiryFar()})
			case 9:
				task.Ops = append(task.Ops, sim.Op{K: "del", S: k})
			case 10:
				ks := pickKeys(r, keys)
				task.Ops = append(task.Ops, sim.Op{K: "getmany", S: strings.Join(ks, ",")})
			default:
				ks := uniq(pickKeys(r, keys))
				var vs []string
				for range ks {
					g.nval++
					vs = append(vs, fmt.Sprintf("x%d", g.nval))
				}
				op := sim.Op{K: "putmany", S: strings.Join(ks, ","), V: strings.Join(vs, ","), D: g.expiryFar(), F: r.Chance(1, 2)}
				if r.Chance(1, 3) {
					op.E = int64(1 + r.Intn(1<<uint(len(ks))-1))
					op.D = int64(time.Hour)
				}
				task.Ops = append(task.Ops, op)
			}
		}
		c.Tasks = append(c.Tasks, task)
	}
}

func pickKeys(r *sim.Rng, keys []string) []string {
	n := 1 + r.Intn(3)
	var out []string
	for i := 0; i < n; i++ {
		out = append(out, keys[r.Intn(len(keys))])
	}
	return out
}

func uniq(xs []string) []string {
	seen := map[string]bool{}
	var out []string
	for _, x := range xs {
		if !seen[x] {
			seen[x] = true
			out = append(out, x)
		}
	}
	return out
}

var c03Keys = []string{"a", "b", "c", "dir/x"}

// distinct strings that a path-like normalisation would merge
var c03OddKeys = []string{"a", "a/", "./a", "dir/x", "dir//x", "dir/./x", ".", "a/..", emptyKey, "b"}

// keys with characters that mean something to formatting, escaping or quoting layers
var c03PctKeys = []string{"p%20q", "p%22q", "100%", "%s", "%d%d", "a b", "a\tb", "a:b", "a\"b"}
var c03Patterns = []string{"*", "a*", "?", "dir/*", "[ab]", "a", "b", "dir/x", "a/", emptyKey, "?*"}

func genC03(g *gen, c *sim.Case, tier string) {
	r := g.r
	if r.Chance(1, 5) {
		// the same contract over time: short expiries and clock jumps, versions judged
		genC06(g, c, tier)
		if c.Mode == "exp" {
			c.Mode = "seq"
			c.Knobs["grace_ms"] = 2
			return
		}
		c.Tasks, c.Faults = nil, nil
	}
	c.Mode = "seq"
	c.Sched = sched(r, time.Second, 40000)
	task := sim.Task{Name: "t0"}
	n := 4 + r.Intn(9)
	if tier == "thorough" && r.Chance(1, 4) {
		n = 12 + r.Intn(20)
	}
	keys := c03Keys
	if r.Chance(1, 4) {
		keys = c03OddKeys
	} else if r.Chance(1, 6) {
		keys = c03PctKeys
	} else if r.Chance(1, 20) {
		// patterns with {a,b} alternatives (gobwas/glob, which the contract names, has them;
		// known finding K2: the Redis backend takes the braces literally)
		keys = []string{"a", "b", "ab", "{ab}", "c"}
		g.patterns = []string{"{a,b}", "{a,b}*", "{a,ab}", "{b,c}", "a", "*", "{a,b}b", "[ab]"}
		c.Knobs["brace_patterns"] = 1
	} else if r.Chance(1, 25) {
		// keys that differ only in leading slashes (known finding K1 on the Redis backend;
		// a shadow model tells that aliasing from any other violation)
		keys = []string{"a", "/a", "//a", "b"}
		g.patterns = []string{"*", "a*", "/a", "a", "/*", "b"}
		c.Knobs["slash_keys"] = 1
	}
	if g.patterns == nil && r.Chance(1, 20) {
		// a big population written and read in big batches (results must stay complete and aligned)
		pop := sim.Pick(r, 40, 300, 1200, 2100)
		c.Knobs["many_keys"] = int64(pop)
		c.Sched = sched(r, time.Second, 400000)
		rng := func() string {
			if r.Chance(1, 2) {
				// batch sizes at and next to round numbers (page and buffer sizes)
				sz := sim.Pick(r, 1, 2, 10, 16, 64, 100, 128, 255, 256, 257, 500, 512, 999, 1000, 1001, 1023, 1024, 1025, 2000, 2047, 2048)
				if sz <= pop {
					a := r.Intn(pop - sz + 1)
					return fmt.Sprintf("#k:%d:%d:1", a, a+sz)
				}
			}
			a := r.Intn(pop)
			b := a + 1 + r.Intn(pop-a)
			return fmt.Sprintf("#k:%d:%d:%d", a, b, sim.Pick(r, 1, 1, 2, 7))
		}
		vals := func(ks string) string {
			var a, b, st int
			fmt.Sscanf(ks, "#k:%d:%d:%d", &a, &b, &st)
			g.nval += pop
			return fmt.Sprintf("#x:%d:%d:%d", g.nval+a, g.nval+b, st)
		}
		all := fmt.Sprintf("#k:0:%d:1", pop)
		task.Ops = append(task.Ops, sim.Op{K: "putmany", S: all, V: vals(all), D: sim.Pick(r, int64(0), int64(0), int64(time.Hour))})
		pats := []string{"*", "k0*", "k*1", "k00?0", "k[01]*5", "k0000", "nothing*"}
		keys = []string{"k0000", "k0001", fmt.Sprintf("k%04d", pop-1), fmt.Sprintf("k%04d", pop/2), fmt.Sprintf("k%04d", pop)}
		for i := 0; i < n; i++ {
			switch r.Intn(6) {
			case 0:
				task.Ops = append(task.Ops, sim.Op{K: "getmany", S: rng() + "," + keys[r.Intn(len(keys))]})
			case 1:
				ks := rng()
				task.Ops = append(task.Ops, sim.Op{K: "putmany", S: ks, V: vals(ks), D: sim.Pick(r, int64(0), int64(0), int64(time.Hour))})
			case 2, 3:
				task.Ops = append(task.Ops, sim.Op{K: "list", S: pats[r.Intn(len(pats))], N: int64(sim.Pick(r, 0, 0, 1, 2, 3))})
			default:
				op := g.seqOp(keys, false)
				if op.K == "list" {
					op.S = pats[r.Intn(len(pats))]
				}
				task.Ops = append(task.Ops, op)
			}
		}
		c.Tasks = []sim.Task{task}
		return
	}
	for i := 0; i < n; i++ {
		task.Ops = append(task.Ops, g.seqOp(keys, false))
	}
	c.Tasks = []sim.Task{task}
}

func (g *gen) seqOp(keys []string, withShortExpiry bool) sim.Op {
	r := g.r
	k := keys[r.Intn(len(keys))]
	exp := func() int64 {
		if !withShortExpiry {
			return g.expiryFar()
		}
		switch r.Intn(6) {
		case 0, 1:
			return 0
		case 2:
			return int64(time.Hour)
		case 3:
			// "practically never" sentinels, beyond what a Duration can hold
			return sim.Pick(r, FarExpiry2500, FarExpiry9999, int64(200*365*24*time.Hour))
		default:
			return int64(sim.Pick(r, 5*time.Millisecond, 50*time.Millisecond, time.Second, 20*time.Second, 300*time.Microsecond, 900*time.Microsecond, 1500*time.Microsecond))
		}
	}
	switch r.Intn(14) {
	case 0, 1:
		return sim.Op{K: "create", S: k, V: g.val(), D: exp()}
	case 2, 3:
		return sim.Op{K: "get", S: k}
	case 4, 5:
		return sim.Op{K: "put", S: k, V: g.val(), D: exp()}
	case 6, 7:
		return sim.Op{K: "cas", S: k, V: g.val(), N: g.casRef(0, 0, 1, 2), D: exp()}
	case 8:
		return sim.Op{K: "del", S: k}
	case 9:
		if r.Chance(1, 25) {
			// a batch computed by the caller that happens to be empty
			return sim.Op{K: "getmany", S: ""}
		}
		return sim.Op{K: "getmany", S: strings.Join(pickKeys(r, keys), ",")}
	case 10, 11:
		if r.Chance(1, 40) {
			return sim.Op{K: "putmany", S: "", V: ""}
		}
		ks := pickKeys(r, keys)
		if r.Chance(1, 2) {
			ks = uniq(ks)
		}
		// repeated keys: the last value wins in both backends
		var vs []string
		for range ks {
			g.nval++
			vs = append(vs, fmt.Sprintf("x%d", g.nval))
		}
		op := sim.Op{K: "putmany", S: strings.Join(ks, ","), V: strings.Join(vs, ","), D: exp(), F: r.Chance(1, 2)}
		if r.Chance(1, 2) {
			// mixed batch: only some records carry an expiry
			op.E = int64(1 + r.Intn(1<<uint(len(ks))-1))
			if op.D == 0 {
				op.D = int64(time.Hour)
			}
		}
		return op
	default:
		pat := c03Patterns[r.Intn(len(c03Patterns))]
		if g.patterns != nil {
			pat = g.patterns[r.Intn(len(g.patterns))]
		}
		for _, k := range keys {
			// gobwas/glob lets "?" match the empty string, Redis does not: with the empty
			// key in play "?" is outside the subset on which the two dialects agree
			if k == emptyKey && strings.Contains(pat, "?") {
				pat = "*"
			}
		}
		return sim.Op{K: "list", S: pat, N: int64(sim.Pick(r, 0, 0, 1, 2, 3))}
	}
}

func genC06(g *gen, c *sim.Case, tier string) {
	r := g.r
	if r.Chance(1, 4) {
		genExpWait(g, c)
		return
	}
	c.Mode = "exp"
	c.Sched = sched(r, 5*time.Millisecond, 40000)
	c.Sched.HorizonNs = int64(5 * time.Hour)
	keys := []string{"a", "b", "c"}
	task := sim.Task{Name: "t0"}
	if L := time.Duration(c.Knobs["net_latency_ns"]); L >= time.Millisecond && r.Chance(1, 2) {
		// a Create that arrives while the previous record of the key is about to expire, over a
		// slow network: whatever the backend computed before its first attempt is old news by
		// the time it retries. The new record must be gone when ITS expiry has passed.
		d1 := sim.Pick(r, 50*time.Millisecond, 200*time.Millisecond)
		d2 := sim.Pick(r, 20*time.Millisecond, 100*time.Millisecond)
		x := time.Duration(r.I64n(int64(3 * L)))
		task.Ops = append(task.Ops, sim.Op{K: "put", S: "a", V: g.val(), D: int64(d1)})
		task.Ops = append(task.Ops, sim.Op{K: "jump", D: int64(d1 - L - x)})
		task.Ops = append(task.Ops, sim.Op{K: "create", S: "a", V: g.val(), D: int64(d2)})
		task.Ops = append(task.Ops, sim.Op{K: "jump", D: int64(d2) - int64(2*L) + r.I64n(int64(L))})
		switch r.Intn(5) {
		case 0:
			task.Ops = append(task.Ops, sim.Op{K: "getmany", S: "a,b"})
		case 1:
			task.Ops = append(task.Ops, sim.Op{K: "list", S: sim.Pick(r, "*", "a")})
		case 2:
			task.Ops = append(task.Ops, sim.Op{K: "create", S: "a", V: g.val()})
		case 3:
			task.Ops = append(task.Ops, sim.Op{K: "del", S: "a"})
		default:
			task.Ops = append(task.Ops, sim.Op{K: "get", S: "a"})
		}
	}
	// write phase
	nw := 2 + r.Intn(4)
	for i := 0; i < nw; i++ {
		k := keys[r.Intn(len(keys))]
		d := int64(0)
		switch r.Intn(7) {
		case 0:
			d = 0
		case 1:
			d = int64(time.Hour)
		case 2:
			d = sim.Pick(r, FarExpiry2500, FarExpiry9999, int64(200*365*24*time.Hour))
		default:
			d = int64(sim.Pick(r, 5*time.Millisecond, 50*time.Millisecond, time.Second, 20*time.Second, 300*time.Microsecond, 900*time.Microsecond, 1500*time.Microsecond))
		}
		switch r.Intn(3) {
		case 0:
			task.Ops = append(task.Ops, sim.Op{K: "create", S: k, V: g.val(), D: d})
		case 1:
			task.Ops = append(task.Ops, sim.Op{K: "put", S: k, V: g.val(), D: d})
		default:
			ks := pickKeys(r, keys)
			if r.Chance(1, 2) {
				ks = uniq(ks)
			}
			var vs []string
			for range ks {
				g.nval++
				vs = append(vs, fmt.Sprintf("x%d", g.nval))
			}
			op := sim.Op{K: "putmany", S: strings.Join(ks, ","), V: strings.Join(vs, ","), D: d}
			if d > 0 && d < int64(time.Hour) && len(ks) > 1 && r.Chance(2, 3) {
				// mixed batch (also with a key repeated): only some records expire
				op.E = int64(1 + r.Intn(1<<uint(len(ks))-1))
			}
			task.Ops = append(task.Ops, op)
		}
	}
	// optionally a waiter that parks before the expiry and must be released by it
	if r.Chance(1, 3) {
		k := keys[r.Intn(len(keys))]
		task.Ops = append(task.Ops, sim.Op{K: "get", S: k})
		task.Ops = append(task.Ops, sim.Op{K: "wait", S: k, N: 0, E: 1000 + int64(sim.Pick(r, 2*time.Second, 30*time.Second))})
	}
	// time passes
	task.Ops = append(task.Ops, sim.Op{K: "jump", D: int64(sim.Pick(r, time.Millisecond, 20*time.Millisecond, 100*time.Millisecond, 2*time.Second, time.Minute, 2*time.Hour))})
	// each operation kind as the first one to touch a key, then more
	n := 3 + r.Intn(6)
	for i := 0; i < n; i++ {
		k := keys[r.Intn(len(keys))]
		switch r.Intn(9) {
		case 0:
			task.Ops = append(task.Ops, sim.Op{K: "get", S: k})
		case 1:
			task.Ops = append(task.Ops, sim.Op{K: "getmany", S: strings.Join(pickKeys(r, keys), ",")})
		case 2:
			task.Ops = append(task.Ops, sim.Op{K: "cas", S: k, V: g.val(), N: g.casRef(0, 0, 1, 2)})
		case 3:
			task.Ops = append(task.Ops, sim.Op{K: "del", S: k})
		case 4:
			task.Ops = append(task.Ops, sim.Op{K: "create", S: k, V: g.val(), D: int64(sim.Pick(r, 0, time.Hour, 50*time.Millisecond))})
		case 5:
			// including literal patterns (a plain key is a legal pattern)
			task.Ops = append(task.Ops, sim.Op{K: "list", S: sim.Pick(r, "*", "a*", "?", "a", "b", "c", k), N: int64(sim.Pick(r, 0, 0, 1, 2, 3))})
		case 6:
			// guarded by a 1 s simulated deadline
			task.Ops = append(task.Ops, sim.Op{K: "wait", S: k, N: 0, E: 1000 + int64(time.Second)})
		case 7:
			task.Ops = append(task.Ops, sim.Op{K: "jump", D: int64(sim.Pick(r, time.Millisecond, 30*time.Millisecond, time.Second, time.Minute))})
		default:
			task.Ops = append(task.Ops, g.seqOp(keys, true))
		}
	}
	c.Tasks = []sim.Task{task}
}

// genExpWait: several waiters parked across one expiry instant (C06; C07 uses it
// for "returns promptly once the key is absent" when absence comes from expiry).
func genExpWait(g *gen, c *sim.Case) {
	r := g.r
	// several waiters parked across one expiry instant, some of them giving up before it
	c.Mode = "expwait"
	c.Sched = sched(r, 5*time.Millisecond, 60000)
	c.Sched.HorizonNs = int64(time.Hour)
	d := sim.Pick(r, 20*time.Millisecond, 200*time.Millisecond, 2*time.Second)
	if r.Chance(1, 5) {
		// "stale tick": waiters give up within a step or two of the expiry instant, so that a
		// timer may fire without its tick being received; afterwards a fresh record with a far
		// expiry is written and waited on for a moment. With the timer channels of older Go
		// releases a left-over tick survives Stop/Reset - whatever the storage recycles
		// must not make the fresh record "expire"
		c.Sched.OldTimers = true
		c.Tasks = append(c.Tasks, sim.Task{Name: "m0", Ops: []sim.Op{{K: "put", S: "a", V: "x1", D: int64(d)}}})
		nw := 1 + r.Intn(3)
		for i := 0; i < nw; i++ {
			t := sim.Task{Name: fmt.Sprintf("w%d", i)}
			t.Ops = append(t.Ops, sim.Op{K: "get", S: "a"})
			e := int64(d) + int64(r.Intn(17)-8)*c.Sched.MaxJitter
			t.Ops = append(t.Ops, sim.Op{K: "wait", S: "a", N: 0, E: 1000 + e})
			c.Tasks = append(c.Tasks, t)
		}
		t := sim.Task{Name: "m1"}
		t.Ops = append(t.Ops, sim.Op{K: "jump", D: int64(d + 5*time.Millisecond)})
		t.Ops = append(t.Ops, sim.Op{K: "put", S: "a", V: "x2", D: int64(time.Hour)})
		for i := 0; i < 1+r.Intn(3); i++ {
			t.Ops = append(t.Ops, sim.Op{K: "wait", S: "a", N: 0, E: 1000 + int64(30*time.Millisecond)})
		}
		t.Ops = append(t.Ops, sim.Op{K: "get", S: "a", F: true})
		c.Tasks = append(c.Tasks, t)
		return
	}
	c.Tasks = append(c.Tasks, sim.Task{Name: "m0", Ops: []sim.Op{{K: sim.Pick(r, "put", "create"), S: "a", V: "x1", D: int64(d)}}})
	nw := 2 + r.Intn(2)
	for i := 0; i < nw; i++ {
		t := sim.Task{Name: fmt.Sprintf("w%d", i)}
		t.Ops = append(t.Ops, sim.Op{K: "jump", D: int64(time.Duration(1+r.Intn(50)) * time.Microsecond)})
		t.Ops = append(t.Ops, sim.Op{K: "get", S: "a"})
		op := sim.Op{K: "wait", S: "a", N: 0}
		switch r.Intn(3) {
		case 0:
			op.E = 1000 + int64(d)/int64(2+r.Intn(6)) // gives up before the expiry
		case 1:
			op.E = int64(1 + r.Intn(12))
		default:
			op.E = 1000 + int64(d) + int64(2*time.Second) // safety deadline well after it
		}
		t.Ops = append(t.Ops, op)
		c.Tasks = append(c.Tasks, t)
	}
	if r.Chance(1, 2) {
		// a waiter that arrives within a few steps of the expiry instant: between the
		// moment the storage finds the record alive and the moment it computes how long
		// to wait, the clock moves
		t := sim.Task{Name: fmt.Sprintf("w%d", nw)}
		off := time.Duration(r.Intn(60)) * time.Duration(c.Sched.MaxJitter) / 2
		t.Ops = append(t.Ops, sim.Op{K: "get", S: "a"})
		t.Ops = append(t.Ops, sim.Op{K: "jump", D: int64(d - off)})
		t.Ops = append(t.Ops, sim.Op{K: "wait", S: "a", N: 0, E: 1000 + int64(d) + int64(2*time.Second)})
		c.Tasks = append(c.Tasks, t)
		if r.Chance(1, 2) {
			c.Sched.Dense = true
			c.Sched.MaxSteps *= 4
		}
	}
	if r.Chance(1, 2) {
		// a writer replaces the record right around its expiry instant (no expiry /
		// a later one): the fresh record must survive whatever the parked waiters do
		off := time.Duration(r.Intn(41)-20) * time.Duration(c.Sched.MaxJitter) / 4
		if r.Chance(1, 3) {
			// ... or well before it: whoever still acts on the old expiry instant afterwards is wrong
			off = -d / time.Duration(sim.Pick(r, 2, 4))
		}
		t := sim.Task{Name: "m1"}
		t.Ops = append(t.Ops, sim.Op{K: "jump", D: int64(d + off)})
		t.Ops = append(t.Ops, sim.Op{K: "put", S: "a", V: "x2", D: int64(sim.Pick(r, 0, time.Hour))})
		t.Ops = append(t.Ops, sim.Op{K: "jump", D: int64(sim.Pick(r, time.Microsecond, time.Millisecond, 300*time.Millisecond))})
		t.Ops = append(t.Ops, sim.Op{K: "get", S: "a", F: true})
		c.Tasks = append(c.Tasks, t)
	}
}

func genC07(g *gen, c *sim.Case, tier string) {
	r := g.r
	if r.Chance(1, 7) {
		genExpWait(g, c)
		return
	}
	c.Mode = "wait"
	c.Sched = sched(r, 2*time.Millisecond, 60000)
	c.Sched.HorizonNs = int64(time.Hour)
	if c.Knobs["backend"] == 0 && r.Chance(1, 170) {
		// a bulk load of many thousand records while waiters arrive: whatever the storage does
		// per record it may do differently per ten thousand (batching, yielding the lock)
		n := sim.Pick(r, 9000, 17000)
		c.Knobs["bulk_load"] = int64(n)
		c.Knobs["no_dense"] = 1
		c.Sched.MaxSteps = 6000000
		all := fmt.Sprintf("#k:0:%d:1", n)
		tail := fmt.Sprintf("k%04d", n-1)
		m := sim.Task{Name: "m0"}
		m.Ops = append(m.Ops, sim.Op{K: "putmany", S: all, V: fmt.Sprintf("#x:0:%d:1", n), N: 7})
		m.Ops = append(m.Ops, sim.Op{K: "put", S: tail, V: "t1"})
		m.Ops = append(m.Ops, sim.Op{K: "putmany", S: all, V: fmt.Sprintf("#x:%d:%d:1", n, 2*n)})
		c.Tasks = append(c.Tasks, m)
		for i := 0; i < 16; i++ {
			// arrivals spread over five orders of magnitude: how long the load takes in simulated
			// time depends on the schedule
			d := time.Microsecond << uint(i)
			t := sim.Task{Name: fmt.Sprintf("w%d", i)}
			t.Ops = append(t.Ops, sim.Op{K: "jump", D: int64(d) + r.I64n(int64(d))})
			t.Ops = append(t.Ops, sim.Op{K: "wait", S: tail, N: 0, E: 1000 + int64(5*time.Minute)})
			c.Tasks = append(c.Tasks, t)
		}
		return
	}
	keys := []string{"k0", "k1"}[:1+r.Intn(2)]
	// setup task creates the keys (most of the time)
	nw := 1 + r.Intn(3)
	nwr := 1 + r.Intn(2)
	// records that "practically never" expire behave like records without expiry
	farOr0 := func() int64 {
		if r.Chance(1, 5) {
			return sim.Pick(r, FarExpiry2500, FarExpiry9999, int64(200*365*24*time.Hour))
		}
		return 0
	}
	// writers
	for t := 0; t < nwr; t++ {
		task := sim.Task{Name: fmt.Sprintf("m%d", t)}
		if t == 0 {
			for _, k := range keys {
				if r.Chance(4, 5) {
					task.Ops = append(task.Ops, sim.Op{K: "create", S: k, V: g.val(), D: farOr0()})
				}
			}
		}
		n := 2 + r.Intn(5)
		for i := 0; i < n; i++ {
			k := keys[r.Intn(len(keys))]
			switch r.Intn(10) {
			case 0, 1:
				v := g.val()
				if r.Chance(1, 4) {
					v = "="
				}
				op := sim.Op{K: "put", S: k, V: v, D: farOr0()}
				if c.Knobs["backend"] == 0 && r.Chance(1, 6) {
					op.D = -int64(time.Second) // an already expired record: the key becomes absent (in-memory backend only)
				}
				task.Ops = append(task.Ops, op)
			case 2, 3:
				ks := uniq(pickKeys(r, keys))
				var vs []string
				for range ks {
					g.nval++
					vs = append(vs, fmt.Sprintf("x%d", g.nval))
				}
				pm := sim.Op{K: "putmany", S: strings.Join(ks, ","), V: strings.Join(vs, ","), F: r.Chance(1, 2), D: farOr0()}
				if c.Knobs["backend"] == 0 && r.Chance(1, 6) {
					pm.D = -int64(time.Second)
					pm.E = int64(1 + r.Intn(1<<uint(len(ks))-1)) // some of the records are already expired
				}
				task.Ops = append(task.Ops, pm)
			case 4, 5:
				task.Ops = append(task.Ops, sim.Op{K: "get", S: k})
				v := g.val()
				if r.Chance(1, 3) {
					v = "=" // same value, new version (what a lease refresh does)
				}
				task.Ops = append(task.Ops, sim.Op{K: "cas", S: k, V: v, N: 0, D: farOr0()})
			case 6:
				task.Ops = append(task.Ops, sim.Op{K: "cas", S: k, V: g.val(), N: g.casRef(1, 2), D: farOr0()})
			case 7:
				task.Ops = append(task.Ops, sim.Op{K: "del", S: k})
			case 8:
				task.Ops = append(task.Ops, sim.Op{K: "create", S: k, V: g.val(), D: farOr0()})
			default:
				task.Ops = append(task.Ops, sim.Op{K: "jump", D: int64(sim.Pick(r, time.Microsecond, time.Millisecond, 30*time.Millisecond, 300*time.Millisecond))})
			}
		}
		c.Tasks = append(c.Tasks, task)
	}
	// waiters
	for t := 0; t < nw; t++ {
		task := sim.Task{Name: fmt.Sprintf("w%d", t)}
		if r.Chance(1, 2) {
			task.Ops = append(task.Ops, sim.Op{K: "jump", D: int64(sim.Pick(r, time.Microsecond, 100*time.Microsecond, 5*time.Millisecond))})
		}
		n := 1 + r.Intn(3)
		for i := 0; i < n; i++ {
			k := keys[r.Intn(len(keys))]
			op := sim.Op{K: "wait", S: k, N: int64(sim.Pick(r, 0, 0, 0, 0, 0, 0, 1, 1, 2, 2, 6))}
			switch r.Intn(8) {
			case 0:
				op.E, op.F = 0, true // cancelled before the call
			case 1:
				op.E = int64(1 + r.Intn(12))
			case 2:
				op.E = int64(sim.Pick(r, 998, 999)) // cancelled exactly at the next mutation of the key
			case 3, 4:
				op.E = 1000 + int64(sim.Pick(r, 10*time.Microsecond, time.Millisecond, 40*time.Millisecond, time.Second))
			default:
				// never cancelled by itself; a safety deadline far away keeps the run finite
				op.E = 1000 + int64(5*time.Second)
			}
			task.Ops = append(task.Ops, op)
		}
		c.Tasks = append(c.Tasks, task)
	}
	if c.Knobs["backend"] == 1 && r.Chance(1, 5) {
		// a read (a poll of a waiter, mostly) is lost with its connection, and the dial that
		// follows fails with an error that wraps a context error of the dialer's own
		for i := 0; i < 1+r.Intn(2); i++ {
			c.Faults = append(c.Faults, sim.Fault{Seam: "net", Kind: "get_lost", Ord: int64(1 + r.Intn(25))})
		}
	}
	if c.Knobs["backend"] == 1 && r.Chance(1, 4) {
		// the server is reachable but answers with error replies for a while (once or twice)
		task := sim.Task{Name: "zf"}
		for i := 0; i < 1+r.Intn(2); i++ {
			task.Ops = append(task.Ops, sim.Op{K: "jump", D: int64(sim.Pick(r, 100*time.Microsecond, 20*time.Millisecond, 150*time.Millisecond, 400*time.Millisecond))})
			task.Ops = append(task.Ops, sim.Op{K: "srverr", D: int64(sim.Pick(r, time.Millisecond, 120*time.Millisecond, 600*time.Millisecond))})
		}
		c.Tasks = append(c.Tasks, task)
	}
}
