package kv

import (
	"fmt"
	"regexp"
	"sort"
	"strings"
	"time"

	"verifharness/sim"

	"github.com/anishathalye/porcupine"
)

// version canonicalisation: every string the storage handed out as a version
// is replaced by v1, v2, ... in order of first appearance, so that logs,
// messages and hashes do not depend on how versions look (ULID, UUID, ...)
// or on their entropy.
var verRe = regexp.MustCompile(`[0-9A-HJKMNP-TV-Z]{26}`)

type canonizer struct {
	m     map[string]string
	order []string // registered raw versions, longest first
}

var cv = &canonizer{m: map[string]string{}}

func resetCanon() { cv = &canonizer{m: map[string]string{}} }

func (c *canonizer) of(v string) string {
	if v == "" {
		return "\"\""
	}
	if x, ok := c.m[v]; ok {
		return x
	}
	if strings.HasPrefix(v, "01BOGUS") {
		c.m[v] = v
		return v
	}
	x := fmt.Sprintf("v%d", len(c.order)+1)
	c.m[v] = x
	c.order = append(c.order, v)
	sort.SliceStable(c.order, func(i, j int) bool { return len(c.order[i]) > len(c.order[j]) })
	return x
}

// alias names a near miss of a known version (v3~lower, ...), so that it prints
// the same way in every run.
func (c *canonizer) alias(m, of string, kind int64) {
	if _, ok := c.m[m]; ok {
		return
	}
	name := c.of(of) + map[int64]string{3: "~case", 4: "~blank", 5: "~cut"}[kind]
	c.m[m] = name
	c.order = append(c.order, m)
	sort.SliceStable(c.order, func(i, j int) bool { return len(c.order[i]) > len(c.order[j]) })
}

// register makes the versions of an outcome known before it is printed.
func (c *canonizer) register(o *outcome) {
	if o == nil {
		return
	}
	if o.Ver != "" {
		c.of(o.Ver)
	}
	for _, m := range o.Many {
		if m != nil && m.Ver != "" {
			c.of(m.Ver)
		}
	}
}

func (w *world) canonVer(v string) string { return cv.of(v) }

// linearizability of a concurrent history (C02 oracle a), partitioned by key.

type linState struct {
	present bool
	val     string
	ver     string
	unbound bool
	short   bool   // the record carries a short expiry: gone at the next tick
	used    string // sorted, comma separated versions already used for this key
}

type linIn struct {
	kind, key, val, ver string
	short               bool
}

func usedHas(used, v string) bool {
	for _, x := range strings.Split(used, ",") {
		if x == v {
			return true
		}
	}
	return false
}

func usedAdd(used, v string) string {
	if used == "" {
		return v
	}
	xs := strings.Split(used, ",")
	xs = append(xs, v)
	sort.Strings(xs)
	return strings.Join(xs, ",")
}

func linStep(st linState, in linIn, out outcome) (bool, linState) {
	ok, ns := linStep1(st, in, out)
	if ok && ns.present && (in.kind == "put" || in.kind == "putmany" || (out.Err == "ok" && (in.kind == "create" || in.kind == "cas"))) {
		ns.short = in.short
	}
	if !ns.present {
		ns.short = false
	}
	return ok, ns
}

func linStep1(st linState, in linIn, out outcome) (bool, linState) {
	freshOK := func(v string) bool { return v != "" && !usedHas(st.used, v) }
	switch in.kind {
	case "tick":
		if st.present && st.short {
			return true, linState{used: st.used}
		}
		return true, st
	case "create":
		switch out.Err {
		case "ok":
			if st.present || !freshOK(out.Ver) {
				return false, st
			}
			return true, linState{present: true, val: in.val, ver: out.Ver, used: usedAdd(st.used, out.Ver)}
		case "ErrExist":
			if !st.present {
				return false, st
			}
			// reports the stored version (C03 checks the value; here only consistency when given)
			if out.Ver != "" {
				if st.unbound {
					if !freshOK(out.Ver) {
						return false, st
					}
					st.ver, st.unbound = out.Ver, false
					st.used = usedAdd(st.used, out.Ver)
				} else if st.ver != out.Ver {
					return false, st
				}
			}
			return true, st
		}
		return false, st
	case "get":
		switch out.Err {
		case "ErrNotExist":
			return !st.present, st
		case "ok":
			if !st.present || st.val != out.Val {
				return false, st
			}
			if st.unbound {
				if !freshOK(out.Ver) {
					return false, st
				}
				st.ver, st.unbound = out.Ver, false
				st.used = usedAdd(st.used, out.Ver)
				return true, st
			}
			return st.ver == out.Ver, st
		}
		return false, st
	case "put":
		if out.Err != "ok" || !freshOK(out.Ver) {
			return false, st
		}
		return true, linState{present: true, val: in.val, ver: out.Ver, used: usedAdd(st.used, out.Ver)}
	case "putmany":
		if out.Err != "ok" {
			return false, st
		}
		return true, linState{present: true, val: in.val, unbound: true, used: st.used}
	case "cas":
		switch out.Err {
		case "ok":
			if !st.present || st.unbound || st.ver != in.ver || !freshOK(out.Ver) {
				return false, st
			}
			return true, linState{present: true, val: in.val, ver: out.Ver, used: usedAdd(st.used, out.Ver)}
		case "ErrConflict":
			if !st.present {
				return false, st
			}
			if !st.unbound && st.ver == in.ver {
				return false, st
			}
			return true, st
		case "ErrNotExist":
			return !st.present, st
		}
		return false, st
	case "del":
		switch out.Err {
		case "ok":
			if !st.present {
				return false, st
			}
			return true, linState{used: st.used}
		case "ErrNotExist":
			return !st.present, st
		}
		return false, st
	}
	return false, st
}

var linModel = porcupine.Model{
	Init: func() interface{} { return linState{} },
	Step: func(state, input, output interface{}) (bool, interface{}) {
		ok, ns := linStep(state.(linState), input.(linIn), output.(outcome))
		return ok, ns
	},
	Equal: func(a, b interface{}) bool { return a.(linState) == b.(linState) },
	DescribeOperation: func(input, output interface{}) string {
		in := input.(linIn)
		out := output.(outcome)
		return fmt.Sprintf("%s(%s %s %s) -> %s", in.kind, in.key, in.val, cv.of(in.ver), out.Err)
	},
}

// linMaybe: the states after a write whose outcome nobody knows (its connection broke).
func linMaybe(st linState, in linIn) []interface{} {
	res := []interface{}{st}
	applied := linState{present: true, val: in.val, unbound: true, short: in.short, used: st.used}
	switch in.kind {
	case "put", "putmany":
		res = append(res, applied)
	case "create":
		if !st.present {
			res = append(res, applied)
		}
	case "cas":
		if st.present && (st.unbound || st.ver == in.ver) {
			res = append(res, applied)
		}
	case "del":
		if st.present {
			res = append(res, linState{used: st.used})
		}
	}
	return res
}

// linNDModel is linModel plus writes of unknown outcome.
var linNDModel = porcupine.NondeterministicModel{
	Init: func() []interface{} { return []interface{}{linState{}} },
	Step: func(state, input, output interface{}) []interface{} {
		st, in, out := state.(linState), input.(linIn), output.(outcome)
		if out.Err == "maybe" {
			return linMaybe(st, in)
		}
		if ok, ns := linStep(st, in, out); ok {
			return []interface{}{ns}
		}
		return nil
	},
	Equal:             func(a, b interface{}) bool { return a.(linState) == b.(linState) },
	DescribeOperation: linModel.DescribeOperation,
}

// Post runs after the bubble has ended (real clock again).
func (w *world) Post(res *sim.Result) {
	if w.mode != "conc" || len(res.Violations) > 0 || res.HarnessError != "" || res.Inconclusive != "" {
		return
	}
	byKey := map[string][]porcupine.Operation{}
	for _, h := range w.hist {
		if h.Kind == "getmany" {
			continue
		}
		out := h.Out
		out.Many, out.Keys, out.Exp = nil, nil, nil
		byKey[h.Key] = append(byKey[h.Key], porcupine.Operation{ClientId: h.Client, Input: linIn{h.Kind, h.Key, h.Val, h.Ver, h.Short}, Call: h.Call, Output: out, Return: h.Ret})
	}
	keys := make([]string, 0, len(byKey))
	for k := range byKey {
		keys = append(keys, k)
	}
	sort.Strings(keys)
	for _, k := range keys {
		if w.skipKey[k] {
			continue
		}
		ops := byKey[k]
		for _, tk := range w.ticks {
			ops = append(ops, porcupine.Operation{ClientId: 1000, Input: linIn{kind: "tick", key: k}, Call: tk[0], Output: outcome{Err: "ok"}, Return: tk[1]})
		}
		model := linModel
		if init, ok := w.initState[k]; ok {
			model.Init = func() interface{} { return init }
		}
		for _, o := range ops {
			if o.Output.(outcome).Err == "maybe" {
				nd := linNDModel
				if init, ok := w.initState[k]; ok {
					nd.Init = func() []interface{} { return []interface{}{init} }
				}
				model = nd.ToModel()
				break
			}
		}
		r := porcupine.CheckOperationsTimeout(model, ops, 20*time.Second)
		switch r {
		case porcupine.Illegal:
			var lines []string
			for _, o := range ops {
				in := o.Input.(linIn)
				out := o.Output.(outcome)
				lines = append(lines, fmt.Sprintf("c%d [%d,%d] %s(%s val=%q ver=%s) -> %s", o.ClientId, o.Call, o.Return, in.kind, in.key, in.val, cv.of(in.ver), canonStr(out.String())))
			}
			res.Violations = append(res.Violations, sim.Violation{Prop: "C02", Oracle: "not_linearizable", Msg: fmt.Sprintf("[%s backend] the history of key %q has no sequential order compatible with real time and the KV contract: %s", w.be.Kind, k, strings.Join(lines, "; "))})
			return
		case porcupine.Unknown:
			if res.Inconclusive == "" {
				res.Inconclusive = "linearizability check timed out"
			}
		}
	}
	if res.Probes != nil {
		res.Probes["histories_checked"] += int64(len(keys))
	}
}

func canonStr(s string) string {
	for _, raw := range cv.order {
		if strings.Contains(s, raw) {
			s = strings.ReplaceAll(s, raw, cv.m[raw])
		}
	}
	return s
}
