module verifharness

go 1.26

require github.com/acquirecloud/golibs v0.0.0

replace github.com/acquirecloud/golibs => ../repo
