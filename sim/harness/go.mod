module verifharness

go 1.26

require (
	github.com/acquirecloud/golibs v0.0.0
	github.com/alicebob/miniredis/v2 v2.30.2
	github.com/anishathalye/porcupine v1.3.0
	github.com/go-redis/redis/v8 v8.11.5
	github.com/gobwas/glob v0.2.3
	github.com/oklog/ulid/v2 v2.1.0
	google.golang.org/protobuf v1.30.0
)

replace github.com/acquirecloud/golibs => ../repo

replace github.com/oklog/ulid/v2 => ../deps/ulid
