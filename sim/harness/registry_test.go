package harness

import (
	"verifharness/sim"
	"verifharness/worlds/blocks"
	"verifharness/worlds/kv"
	"verifharness/worlds/lock"
	"verifharness/worlds/lru"
	"verifharness/worlds/timer"
)

type worldDef struct {
	New      func(c *sim.Case) (sim.World, error)
	Generate func(r *sim.Rng, prop, tier string, idx int) *sim.Case
}

var worlds = map[string]worldDef{
	"timer": {New: timer.New, Generate: timer.Generate},
	"lock":  {New: lock.New, Generate: lock.Generate},
	"kv":    {New: kv.New, Generate: kv.Generate},
	"blocks": {New: blocks.New, Generate: blocks.Generate},
	"lru":   {New: lru.New, Generate: lru.Generate},
}
