package harness

import (
	"github.com/acquirecloud/golibs/chans"
	gbytes "github.com/acquirecloud/golibs/container/bytes"
	"github.com/acquirecloud/golibs/container/iterable"
	glru "github.com/acquirecloud/golibs/container/lru"
	distlock "github.com/acquirecloud/golibs/kvs/distlock"
	"github.com/acquirecloud/golibs/kvs/inmem"
	gredis "github.com/acquirecloud/golibs/kvs/redis"
	"github.com/acquirecloud/golibs/timeout"
	"github.com/acquirecloud/golibs/ulidutils"
	ulid "github.com/oklog/ulid/v2"

	"verifharness/sim"
	"verifharness/worlds/blocks"
	"verifharness/worlds/kv"
	"verifharness/worlds/lock"
	"verifharness/worlds/lru"
	"verifharness/worlds/timer"
)

type worldDef struct {
	New      func(c *sim.Case) (sim.World, error)
	Generate func(r *sim.Rng, prop, tier string, idx int) *sim.Case
}

var worlds = map[string]worldDef{
	"timer":  {New: timer.New, Generate: timer.Generate},
	"lock":   {New: lock.New, Generate: lock.Generate},
	"kv":     {New: kv.New, Generate: kv.Generate},
	"blocks": {New: blocks.New, Generate: blocks.Generate},
	"lru":    {New: lru.New, Generate: lru.Generate},
}

func init() {
	// rewriter rule R8: package-level variables of the instrumented packages whose
	// initialiser read the real clock are evaluated again on the simulated one
	sim.PreSetup = func() {
		chans.ZverifReinitClockVars()
		gbytes.ZverifReinitClockVars()
		iterable.ZverifReinitClockVars()
		glru.ZverifReinitClockVars()
		distlock.ZverifReinitClockVars()
		inmem.ZverifReinitClockVars()
		gredis.ZverifReinitClockVars()
		timeout.ZverifReinitClockVars()
		ulidutils.ZverifReinitClockVars()
		ulid.ZverifReinitClockVars() // the rewritten dependency (R10): its lazily initialised entropy source starts afresh in every run
	}
}
