package harness

import (
	"bufio"
	"encoding/json"
	"fmt"
	"os"
	"runtime"
	"runtime/debug"
	"sort"
	"strings"
	"testing"
	"testing/synctest"
	"time"

	"verifharness/sim"
)

// Job is what the driver (bin/check) hands to a worker process through the
// file named by $DSIM_JOB.
type Job struct {
	Property      string      `json:"property"`
	World         string      `json:"world"`
	Tier          string      `json:"tier"`
	BaseSeed      uint64      `json:"base_seed"`
	From          int         `json:"from"`
	To            int         `json:"to"`
	Stride        int         `json:"stride"`
	Out           string      `json:"out"`
	BudgetS       float64     `json:"budget_s"`
	Mode          string      `json:"mode"` // "explore" | "replay" | "shrink"
	Replay        *ReplayFile `json:"replay,omitempty"`
	Trace         bool        `json:"trace"`
	MaxViol       int         `json:"max_viol"`
	ShrinkBudgetS float64     `json:"shrink_budget_s"`
	ShrinkMaxRuns int         `json:"shrink_max_runs"`
	Variant       string      `json:"variant"`
	// Known: the listed known findings of this property (known_findings.json). A run whose
	// violation matches one does not count towards max_viol, and after three full records
	// per finding only a light record is written.
	Known []KnownMatch `json:"known,omitempty"`
}

type KnownMatch struct {
	ID     string           `json:"id"`
	Oracle string           `json:"oracle"`
	Mode   string           `json:"mode"`
	Knobs  map[string]int64 `json:"knobs"`
	Regex  bool             `json:"regex"` // has a message_regex: always judged by the driver
}

func (j *Job) knownFor(c *sim.Case, vs []sim.Violation) *KnownMatch {
	for _, v := range vs {
		if v.Prop != j.Property {
			continue
		}
		for i := range j.Known {
			k := &j.Known[i]
			if k.Regex || (k.Oracle != "" && k.Oracle != v.Oracle) || (k.Mode != "" && k.Mode != c.Mode) {
				continue
			}
			ok := true
			for kn, kv := range k.Knobs {
				if got, has := c.Knobs[kn]; !has || got != kv {
					ok = false
				}
			}
			if ok {
				return k
			}
		}
		return nil // the first violation of the property decides, as in the driver
	}
	return nil
}

// ReplayFile is the replay file format (DESIGN.md section 6).
type ReplayFile struct {
	Property string    `json:"property"`
	World    string    `json:"world"`
	BaseSeed uint64    `json:"base_seed"`
	RunSeed  uint64    `json:"run_seed"`
	Index    int       `json:"index"`
	Case     *sim.Case `json:"case"`
	Tape     []int64   `json:"tape"`
	Expect   struct {
		Oracle    string `json:"oracle"`
		Message   string `json:"message"`
		TraceHash string `json:"trace_hash"`
	} `json:"expect"`
	MinimisedFrom map[string]int `json:"minimised_from,omitempty"`
	Tree          map[string]any `json:"tree,omitempty"`
	Tier          string         `json:"tier,omitempty"`
}

type chunk struct {
	T             string            `json:"t"`
	Next          int               `json:"next"`
	Runs          int               `json:"runs"`
	Steps         int64             `json:"steps"`
	SimNs         int64             `json:"sim_ns"`
	Ops           int64             `json:"ops"`
	OpsDone       int64             `json:"ops_done"`
	Inconclusive  map[string]int    `json:"inconclusive,omitempty"`
	Void          map[string]int    `json:"void,omitempty"`
	Probes        map[string]int64  `json:"probes,omitempty"`
	Faults        map[string]int64  `json:"faults,omitempty"`
	RunsWithFault int               `json:"runs_with_fault"`
	Hashes        []string          `json:"hashes,omitempty"` // sched hashes of non-trivial runs
	Trivial       int               `json:"trivial"`
	Samples       []json.RawMessage `json:"samples,omitempty"`
	MaxParkedNs   int64             `json:"max_parked_ns"`
	Modes         map[string]int    `json:"modes,omitempty"`
	UncontrolledY int64             `json:"uncontrolled_yields"`
	WallS         float64           `json:"wall_s"`
}

func newChunk() *chunk {
	return &chunk{T: "sum", Inconclusive: map[string]int{}, Void: map[string]int{}, Probes: map[string]int64{}, Faults: map[string]int64{}, Modes: map[string]int{}}
}

var out *bufio.Writer
var outF *os.File

func emit(v any) {
	b, err := json.Marshal(v)
	if err != nil {
		panic(err)
	}
	out.Write(b)
	out.WriteByte('\n')
	out.Flush()
}

func runOne(t *testing.T, c *sim.Case, runSeed uint64, tape []int64, replay, trace bool) (res *sim.Result, rec []int64) {
	def, ok := worlds[c.World]
	if !ok {
		t.Fatalf("unknown world %q", c.World)
	}
	w, err := def.New(c)
	if err != nil {
		t.Fatalf("world %s: %v", c.World, err)
	}
	func() {
		defer func() {
			// goroutines that block where the simulator cannot reach them (a call the rewriter does not
			// know, made by an edited library) outlive the run: synctest reports that as a deadlock
			// panic. What the run found stands; the process is not used for another run.
			if v := recover(); v != nil {
				if msg := fmt.Sprint(v); res != nil && strings.Contains(msg, "main bubble goroutine has exited") {
					res.Dirty = true
					if res.HarnessError == "" && res.Inconclusive == "" && len(res.Violations) == 0 {
						res.HarnessError = "goroutines blocked outside the simulator's reach at the end of the run: " + msg
					}
					return
				}
				panic(v)
			}
		}()
		synctest.Test(t, func(t *testing.T) {
			res, rec = sim.ExecuteRec(c, w, runSeed, tape, replay, trace)
		})
	}()
	if pc, ok := w.(sim.PostChecker); ok && res != nil {
		pc.Post(res)
	}
	return
}

func reasonKey(s string) string {
	if len(s) > 40 {
		s = s[:40]
	}
	return s
}

func TestSim(t *testing.T) {
	jobPath := os.Getenv("DSIM_JOB")
	if jobPath == "" {
		t.Skip("DSIM_JOB not set")
	}
	jb, err := os.ReadFile(jobPath)
	if err != nil {
		t.Fatal(err)
	}
	var job Job
	if err := json.Unmarshal(jb, &job); err != nil {
		t.Fatal(err)
	}
	outF, err = os.OpenFile(job.Out, os.O_CREATE|os.O_WRONLY|os.O_APPEND, 0o644)
	if err != nil {
		t.Fatal(err)
	}
	defer outF.Close()
	out = bufio.NewWriter(outF)
	defer out.Flush()

	switch job.Mode {
	case "replay":
		doReplay(t, &job)
	case "shrink":
		doShrink(t, &job)
	default:
		doExplore(t, &job)
	}
}

func runSeedFor(base uint64, idx int) uint64 {
	return sim.SplitMix(base*0x9E3779B97F4A7C15 ^ sim.SplitMix(uint64(idx)+0x1234567))
}

func doExplore(t *testing.T, job *Job) {
	def, ok := worlds[job.World]
	if !ok {
		t.Fatalf("unknown world %q", job.World)
	}
	start := time.Now()
	ck := newChunk()
	nviol := 0
	knownSeen := map[string]int{}
	stride := job.Stride
	if stride < 1 {
		stride = 1
	}
	flush := func(next int) {
		ck.Next = next
		ck.WallS = time.Since(start).Seconds()
		emit(ck)
		ck = newChunk()
	}
	lastFlush := time.Now()
	for idx := job.From; idx < job.To; idx += stride {
		if job.BudgetS > 0 && time.Since(start).Seconds() > job.BudgetS {
			flush(idx)
			emit(map[string]any{"t": "end", "reason": "budget", "next": idx})
			return
		}
		seed := runSeedFor(job.BaseSeed, idx)
		c := def.Generate(sim.NewRng(seed), job.Property, job.Tier, idx)
		if !c.Sched.Dense && c.Knob("no_dense", 0) == 0 && sim.NewRng(seed^0xd5e5e).Chance(1, 8) {
			// dense scheduling (R9): every statement of the library is a scheduling point
			c.Sched.Dense = true
			c.Sched.MaxSteps *= 4
		}
		if sim.NewRng(seed^0x71e5).Chance(1, 3) {
			// the timer channels of Go releases before 1.23 (R13)
			c.Sched.OldTimers = true
		}
		if os.Getenv("DSIM_DEBUG") != "" {
			b, _ := json.Marshal(c)
			fmt.Fprintf(os.Stderr, "DSIM_DEBUG idx=%d case=%s\n", idx, b)
		}
		res, rec := runOne(t, c, seed, nil, false, job.Trace)
		if c.Mode == "huge" {
			// a run with a buffer of more than a gigabyte: give it back before the next one is
			// allocated (three of them in flight exceed the address-space limit of a worker)
			runtime.GC()
			debug.FreeOSMemory()
		}
		res.Index = idx
		ck.Runs++
		ck.Steps += res.Steps
		ck.SimNs += res.SimNs
		ck.Ops += int64(res.Ops)
		ck.OpsDone += int64(res.OpsDone)
		ck.Modes[c.Mode]++
		if c.Sched.Dense {
			ck.Probes["runs_with_dense_scheduling"]++
		}
		if c.Sched.OldTimers {
			ck.Probes["runs_with_old_timer_channels"]++
		}
		ck.Probes["map_and_object_accesses_monitored"] += res.MapChecks
		ck.UncontrolledY += res.UncontrolledY
		if res.MaxParkedNs > ck.MaxParkedNs {
			ck.MaxParkedNs = res.MaxParkedNs
		}
		if res.Inconclusive != "" {
			ck.Inconclusive[reasonKey(res.Inconclusive)]++
		}
		if res.Void != "" {
			ck.Void[reasonKey(res.Void)]++
		}
		for k, v := range res.Probes {
			if len(k) > 4 && k[:4] == "max_" {
				if v > ck.Probes[k] {
					ck.Probes[k] = v
				}
			} else {
				ck.Probes[k] += v
			}
		}
		nf := int64(0)
		for k, v := range res.Faults {
			ck.Faults[k] += v
			nf += v
		}
		if nf > 0 {
			ck.RunsWithFault++
		}
		// non-trivial: the scheduler preempted a runnable goroutine at least
		// twice, or (single-task cases, where it has nothing to preempt) at
		// least three operations completed. Distinct = distinct hashes of
		// (release sequence, case).
		if res.Preempt >= 2 || (len(c.Tasks) == 1 && res.OpsDone >= 3) {
			cb, _ := json.Marshal(c)
			h := res.SchedHash
			for _, b := range cb {
				h ^= uint64(b)
				h *= 1099511628211
			}
			ck.Hashes = append(ck.Hashes, fmt.Sprintf("%x", h))
		} else {
			ck.Trivial++
		}
		if len(ck.Samples) < 1 && idx%97 == job.From%97 {
			b, _ := json.Marshal(map[string]any{"index": idx, "run_seed": seed, "case": c, "steps": res.Steps, "sim_ns": res.SimNs, "preemptions": res.Preempt, "tape_prefix": prefix(rec, 48)})
			ck.Samples = append(ck.Samples, b)
		}
		if job.Variant == "determinism" {
			// the same case once more in this process, replayed from the recorded tape: it must
			// not matter that the process has run something before (state that survives a run),
			// nor whether decisions are drawn or replayed
			h := res.TraceHash
			if !res.Dirty && res.HarnessError == "" {
				res2, _ := runOne(t, c.Clone(), seed, rec, true, false)
				if res2.TraceHash != res.TraceHash {
					h = res.TraceHash + "!=rerun:" + res2.TraceHash
				}
			}
			emit(map[string]any{"t": "h", "i": idx, "h": h, "steps": res.Steps, "trace": res.Trace, "probes": res.Probes})
		}
		if res.HarnessError != "" {
			emit(map[string]any{"t": "harness_error", "index": idx, "run_seed": seed, "error": res.HarnessError, "case": c, "tape": rec})
		}
		if len(res.Violations) > 0 {
			if k := job.knownFor(c, res.Violations); k != nil {
				knownSeen[k.ID]++
				if knownSeen[k.ID] <= 3 {
					emit(map[string]any{"t": "viol", "index": idx, "run_seed": seed, "violations": res.Violations, "case": c, "tape": rec, "trace_hash": res.TraceHash, "steps": res.Steps})
				} else {
					emit(map[string]any{"t": "viol_known", "index": idx, "id": k.ID})
				}
			} else {
				nviol++
				emit(map[string]any{"t": "viol", "index": idx, "run_seed": seed, "violations": res.Violations, "case": c, "tape": rec, "trace_hash": res.TraceHash, "steps": res.Steps})
			}
		}
		if res.Dirty {
			flush(idx + stride)
			emit(map[string]any{"t": "end", "reason": "dirty", "next": idx + stride})
			out.Flush()
			outF.Close()
			os.Exit(3)
		}
		if job.MaxViol > 0 && nviol >= job.MaxViol {
			flush(idx + stride)
			emit(map[string]any{"t": "end", "reason": "max_viol", "next": idx + stride})
			return
		}
		if ck.Runs >= 500 || time.Since(lastFlush) > 5*time.Second {
			flush(idx + stride)
			lastFlush = time.Now()
		}
	}
	flush(job.To)
	emit(map[string]any{"t": "end", "reason": "done", "next": job.To})
}

func prefix(x []int64, n int) []int64 {
	if len(x) > n {
		return x[:n]
	}
	return x
}

func doReplay(t *testing.T, job *Job) {
	rf := job.Replay
	res, _ := runOne(t, rf.Case, rf.RunSeed, rf.Tape, os.Getenv("DSIM_FREE_REPLAY") == "", job.Trace) // DSIM_FREE_REPLAY: a hand-written case under a fresh random schedule (experiments)
	emit(map[string]any{"t": "replay", "result": res})
	if res.Dirty {
		out.Flush()
		outF.Close()
		os.Exit(3)
	}
}

func sortedInts(m map[int]bool) []int {
	var o []int
	for k := range m {
		o = append(o, k)
	}
	sort.Ints(o)
	return o
}
