// Package sim is the scheduler side of the deterministic simulator: tape,
// step loop, run environment, result records. See DESIGN.md section 2.
package sim

import (
	"encoding/json"
	"fmt"
	"runtime/debug"
	"sort"
	"strings"
	"sync/atomic"
	"testing/synctest"
	"time"

	"github.com/acquirecloud/golibs/zsimrt"
)

// ---------------------------------------------------------------------------
// PRNG: splitmix64 + xorshift; self-contained so that no library change can
// alter what a seed means.

type Rng struct{ s uint64 }

func SplitMix(x uint64) uint64 {
	x += 0x9E3779B97F4A7C15
	z := x
	z = (z ^ (z >> 30)) * 0xBF58476D1CE4E5B9
	z = (z ^ (z >> 27)) * 0x94D049BB133111EB
	return z ^ (z >> 31)
}

func NewRng(seed uint64) *Rng { return &Rng{s: SplitMix(seed) | 1} }

func (r *Rng) U64() uint64 {
	r.s = SplitMix(r.s)
	return r.s
}

// Intn returns a value in [0,n).
func (r *Rng) Intn(n int) int {
	if n <= 1 {
		return 0
	}
	return int(r.U64() % uint64(n))
}

func (r *Rng) I64n(n int64) int64 {
	if n <= 1 {
		return 0
	}
	return int64(r.U64() % uint64(n))
}

// Chance is true with probability num/den.
func (r *Rng) Chance(num, den int) bool { return r.Intn(den) < num }

// Pick returns one of the values.
func Pick[T any](r *Rng, xs ...T) T { return xs[r.Intn(len(xs))] }

// ---------------------------------------------------------------------------
// Case: everything a run consumes apart from the tape.

type Op struct {
	K string `json:"k"`           // kind
	S string `json:"s,omitempty"` // key / name / reference
	V string `json:"v,omitempty"` // value / second string
	N int64  `json:"n,omitempty"` // count / index
	D int64  `json:"d,omitempty"` // duration, ns
	E int64  `json:"e,omitempty"` // second duration / extra
	F bool   `json:"f,omitempty"` // flag
}

func (o Op) String() string {
	s := o.K
	if o.S != "" {
		s += " " + o.S
	}
	if o.V != "" {
		s += " v=" + o.V
	}
	if o.N != 0 {
		s += fmt.Sprintf(" n=%d", o.N)
	}
	if o.D != 0 {
		s += " d=" + time.Duration(o.D).String()
	}
	if o.E != 0 {
		s += " e=" + time.Duration(o.E).String()
	}
	if o.F {
		s += " f"
	}
	return s
}

type Task struct {
	Name string `json:"name"`
	Ops  []Op   `json:"ops"`
}

type Fault struct {
	Seam string `json:"seam"`           // which seam
	Kind string `json:"kind"`           // fault kind
	Ord  int64  `json:"ord,omitempty"`  // call ordinal at the seam (1-based)
	At   int64  `json:"at,omitempty"`   // simulated instant, ns since start
	Node string `json:"node,omitempty"` // party
	D    int64  `json:"d,omitempty"`    // duration
}

type SchedCfg struct {
	F         int   `json:"f"`          // fairness bound
	MaxJitter int64 `json:"max_jitter"` // ns per step (upper bound)
	StickyPct int   `json:"sticky_pct"` // probability to keep running the same goroutine
	MaxSteps  int   `json:"max_steps"`
	HorizonNs int64 `json:"horizon_ns"`           // simulated time without any activity => quiescent
	PCTDepth  int   `json:"pct_depth"`            // >0: priority scheduling with that many change points
	PCTLen    int   `json:"pct_len"`              // expected run length for change point placement
	Dense     bool  `json:"dense,omitempty"`      // scheduling points before every statement of the library (rewriter rule R9)
	OldTimers bool  `json:"old_timers,omitempty"` // timer channels as before Go 1.23: a tick not received survives Stop/Reset (R13)
	// StallPermille > 0: at a scheduling point the chosen goroutine is, with that probability, not given a
	// processor for up to StallMaxNs of simulated time (a stalled thread or node) and must be chosen again afterwards
	StallPermille int   `json:"stall_permille,omitempty"`
	StallMaxNs    int64 `json:"stall_max_ns,omitempty"`
}

type Case struct {
	World  string           `json:"world"`
	Prop   string           `json:"property"`
	Mode   string           `json:"mode"`
	Knobs  map[string]int64 `json:"knobs"`
	Tasks  []Task           `json:"tasks"`
	Faults []Fault          `json:"faults"`
	Sched  SchedCfg         `json:"sched"`
}

func (c *Case) Clone() *Case {
	b, _ := json.Marshal(c)
	var out Case
	json.Unmarshal(b, &out)
	if out.Knobs == nil {
		out.Knobs = map[string]int64{}
	}
	return &out
}

func (c *Case) Knob(name string, def int64) int64 {
	if v, ok := c.Knobs[name]; ok {
		return v
	}
	return def
}

// NumOps is the size measure used by the shrinker and the evidence.
func (c *Case) NumOps() int {
	n := 0
	for _, t := range c.Tasks {
		n += len(t.Ops)
	}
	return n
}

// ---------------------------------------------------------------------------
// Violations and results

type Violation struct {
	Prop   string `json:"property"`
	Oracle string `json:"oracle"`
	Msg    string `json:"message"`
	Step   int64  `json:"step"`
	AtNs   int64  `json:"at_ns"`
}

type Result struct {
	RunSeed       uint64           `json:"run_seed"`
	Index         int              `json:"index"`
	Violations    []Violation      `json:"violations,omitempty"`
	Inconclusive  string           `json:"inconclusive,omitempty"`
	Void          string           `json:"precondition_void,omitempty"`
	Steps         int64            `json:"steps"`
	SimNs         int64            `json:"sim_ns"`
	Preempt       int              `json:"preemptions"`
	TraceHash     string           `json:"trace_hash"`
	SchedHash     uint64           `json:"sched_hash"`
	Probes        map[string]int64 `json:"probes,omitempty"`
	Faults        map[string]int64 `json:"faults,omitempty"`
	Ops           int              `json:"ops"`
	OpsDone       int              `json:"ops_done"`
	Dirty         bool             `json:"dirty,omitempty"` // goroutines left over: process must exit
	HarnessError  string           `json:"harness_error,omitempty"`
	Trace         []string         `json:"trace,omitempty"`
	MaxParkedNs   int64            `json:"max_parked_ns"`
	UncontrolledY int64            `json:"uncontrolled_yields,omitempty"`
	MapChecks     int64            `json:"map_checks,omitempty"`
}

// ---------------------------------------------------------------------------
// World interface

type World interface {
	// Setup runs on the root goroutine inside the bubble before the first
	// step; it creates the system under test and spawns the tasks.
	Setup(e *Env)
	// Finished is asked when nothing is runnable or between steps; a world
	// may spawn further (epilogue) tasks here and return false.
	Finished(e *Env) bool
	// Invariant runs between steps, at quiescence, on the root goroutine.
	Invariant(e *Env)
	// Idle runs when nothing is runnable, before the clock is allowed to
	// jump.
	Idle(e *Env)
	// Quiet runs when HorizonNs of simulated time passed without any
	// controlled goroutine parking. Return true to end the run.
	Quiet(e *Env) bool
	// Teardown closes what the world owns (after abort).
	Teardown(e *Env)
}

// PostChecker is an optional interface of a World: Post runs after the bubble
// has ended (real clock), e.g. for history checkers.
type PostChecker interface {
	Post(res *Result)
}

// ---------------------------------------------------------------------------
// Env

type Env struct {
	wokePending bool // a runnable goroutine sits at a post-wake point (drawJitter)
	RT          *zsimrt.Run
	Case        *Case
	Cfg         SchedCfg
	Start       time.Time
	Res         *Result

	rng     *Rng    // schedule policy stream (generate mode)
	replay  []int64 // replay tape (replay mode)
	Replay  bool
	rpos    int
	Rec     []int64 // recorded tape
	step    int64
	stamp   int64
	th      fnvHash
	sh      fnvHash
	Tracing bool
	last    string
	done    map[string]bool
	stop    bool
	OpsDone int
	// PCT state
	prio         map[string]int
	chg          map[int64]bool
	nextLow      int
	LastProgress time.Time
	frozen       atomic.Bool // set when the loop has ended: later events are ignored
	// OnPanic is set by the world: a panic in any controlled goroutine that
	// is not a harness task (those have their own handler in Spawn).
	OnPanic func(name string, v any, stack string)
	// StallOK: may the goroutine parked at that point be stalled (sched.stall_permille)? A world
	// allows it where a slow thread is legal and its oracles account for it.
	StallOK func(name, point string) bool
}

type fnvHash struct{ h uint64 }

func (f *fnvHash) add(s string) {
	if f.h == 0 {
		f.h = 14695981039346656037
	}
	for i := 0; i < len(s); i++ {
		f.h ^= uint64(s[i])
		f.h *= 1099511628211
	}
	f.h ^= 0xff
	f.h *= 1099511628211
}

// Now is simulated time since the start of the run.
func (e *Env) Now() time.Duration { return time.Since(e.Start) }

// Step is the number of releases so far.
func (e *Env) Step() int64 { return e.step }

// Stamp returns the next global event sequence number.
func (e *Env) Stamp() int64 {
	e.stamp++
	return e.stamp
}

// Logf records an event in the canonical trace (hashed; kept when tracing).
func (e *Env) Logf(format string, args ...any) {
	if e.frozen.Load() {
		return
	}
	s := fmt.Sprintf(format, args...)
	e.th.add(s)
	if e.Tracing {
		e.Res.Trace = append(e.Res.Trace, fmt.Sprintf("[%d %v] %s", e.step, e.Now(), s))
	}
}

func (e *Env) Probe(name string) {
	if e.frozen.Load() {
		return
	}
	e.Res.Probes[name]++
}

func (e *Env) FaultFired(kind string) {
	if e.frozen.Load() {
		return
	}
	e.Res.Faults[kind]++
}

func (e *Env) Progress() { e.LastProgress = time.Now() }

// Violate records a violation.
func (e *Env) Violate(prop, oracle, format string, args ...any) {
	if e.frozen.Load() {
		return
	}
	msg := fmt.Sprintf(format, args...)
	for _, v := range e.Res.Violations {
		if v.Prop == prop && v.Oracle == oracle {
			return // first of a kind per run is enough
		}
	}
	e.Res.Violations = append(e.Res.Violations, Violation{Prop: prop, Oracle: oracle, Msg: msg, Step: e.step, AtNs: int64(e.Now())})
	e.Logf("VIOLATION %s %s %s", prop, oracle, msg)
	e.stop = true
}

func (e *Env) Inconclusive(reason string) {
	if e.frozen.Load() {
		return
	}
	if e.Res.Inconclusive == "" {
		e.Res.Inconclusive = reason
	}
	e.stop = true
}

func (e *Env) Void(reason string) {
	if e.frozen.Load() {
		return
	}
	if e.Res.Void == "" {
		e.Res.Void = reason
	}
}

// Frozen reports that the run has ended and tear-down is in progress.
func (e *Env) Frozen() bool { return e.frozen.Load() }

// Stop ends the run after the current step.
func (e *Env) Stop() { e.stop = true }

// Spawn starts a harness task. A panic inside is reported through onPanic
// (nil => harness error).
func (e *Env) Spawn(name string, f func(), onPanic func(v any, stack string)) {
	e.RT.Spawn(name, func() {
		defer func() {
			if r := recover(); r != nil {
				st := string(debug.Stack())
				switch {
				case onPanic != nil:
					onPanic(r, st)
				case e.OnPanic != nil:
					// tasks of a world (also its epilogue tasks) call into the code under
					// test: the world decides what a panic there means
					e.OnPanic(name, r, st)
				default:
					e.HarnessError(fmt.Sprintf("panic in %s: %v\n%s", name, r, st))
				}
			}
		}()
		f()
	})
}

func (e *Env) HarnessError(msg string) {
	if e.frozen.Load() {
		return
	}
	if e.Res.HarnessError == "" {
		e.Res.HarnessError = msg
	}
	e.stop = true
}

// draw returns the next tape value; gen computes it in generate mode.
func (e *Env) draw(gen func() int64) int64 {
	var v int64
	if e.Replay {
		if e.rpos < len(e.replay) {
			v = e.replay[e.rpos]
		} else {
			v = 0
		}
		e.rpos++
	} else {
		v = gen()
	}
	e.Rec = append(e.Rec, v)
	return v
}

func (e *Env) drawJitter() time.Duration {
	v := e.draw(func() int64 {
		maxJ := e.Cfg.MaxJitter
		if maxJ < 1 {
			maxJ = 1
		}
		if e.wokePending && e.rng.Intn(2) == 0 {
			// somebody has just been woken (a timer, a channel) and waits to be run: the time a
			// woken goroutine waits for a processor is long compared with the time between two
			// statements - whatever is due in the meantime becomes due before it goes on
			return 1 + e.rng.I64n(maxJ)
		}
		switch e.rng.Intn(10) {
		case 0:
			return 1 + e.rng.I64n(maxJ)
		case 1, 2:
			m := maxJ / 16
			if m < 1 {
				m = 1
			}
			return 1 + e.rng.I64n(m)
		default:
			m := maxJ / 256
			if m < 1 {
				m = 1
			}
			return 1 + e.rng.I64n(m)
		}
	})
	if v < 1 {
		v = 1
	}
	if e.Cfg.MaxJitter > 0 && v > e.Cfg.MaxJitter {
		v = e.Cfg.MaxJitter
	}
	return time.Duration(v)
}

func (e *Env) choose(P []*zsimrt.G) (*zsimrt.G, uint32) {
	n := len(P)
	idx := e.draw(func() int64 {
		// fairness first
		worst, wi := -1, -1
		for i, g := range P {
			if g.Passed >= e.Cfg.F && g.Passed > worst {
				worst, wi = g.Passed, i
			}
		}
		if wi >= 0 {
			return int64(wi)
		}
		if e.Cfg.PCTDepth > 0 {
			return int64(e.pctChoose(P))
		}
		if e.Cfg.StickyPct > 0 && e.last != "" && e.rng.Intn(100) < e.Cfg.StickyPct {
			for i, g := range P {
				if g.Name == e.last {
					return int64(i)
				}
			}
		}
		return int64(e.rng.Intn(n))
	})
	if idx < 0 {
		idx = 0
	}
	i := int(idx % int64(n))
	sel := uint32(e.draw(func() int64 { return int64(e.rng.Intn(8)) }))
	for j, g := range P {
		if j == i {
			g.Passed = 0
		} else {
			g.Passed++
		}
	}
	return P[i], sel
}

// pctChoose: PCT-style priorities: each goroutine gets a random priority on
// first sight; the highest priority runnable one runs; at d-1 random steps
// the running goroutine's priority drops below everything.
func (e *Env) pctChoose(P []*zsimrt.G) int {
	if e.prio == nil {
		e.prio = map[string]int{}
		e.chg = map[int64]bool{}
		L := e.Cfg.PCTLen
		if L < 16 {
			L = 16
		}
		for i := 0; i < e.Cfg.PCTDepth-1; i++ {
			e.chg[int64(e.rng.Intn(L))] = true
		}
		e.nextLow = -1
	}
	best, bi := -1<<30, 0
	for i, g := range P {
		p, ok := e.prio[g.Name]
		if !ok {
			p = 1000 + e.rng.Intn(1000000)
			e.prio[g.Name] = p
		}
		if p > best {
			best, bi = p, i
		}
	}
	if e.chg[e.step] {
		e.prio[P[bi].Name] = e.nextLow
		e.nextLow--
	}
	return bi
}

// Loop is the scheduler (DESIGN.md 2.4). It runs on the bubble's root
// goroutine.
func (e *Env) Loop(w World) {
	e.LastProgress = time.Now()
	for !e.stop {
		time.Sleep(e.drawJitter())
		synctest.Wait()
		w.Invariant(e)
		if e.stop {
			break
		}
		P := e.RT.Runnable()
		if len(P) == 0 && e.RT.Stalled() > 0 {
			// somebody could run but has no processor at the moment: not a quiescent state
			tm := time.NewTimer(time.Duration(e.Cfg.StallMaxNs) + time.Second)
			select {
			case <-e.RT.Arrival:
				tm.Stop()
			case <-tm.C:
			}
			continue
		}
		if len(P) == 0 {
			// nothing is runnable: the world may judge the quiescent state
			// before the clock is allowed to jump
			w.Idle(e)
			if e.stop {
				break
			}
			if w.Finished(e) {
				break
			}
			if e.stop {
				break
			}
			// Finished may have spawned something
			synctest.Wait()
			if len(e.RT.Runnable()) > 0 {
				continue
			}
			h := time.Duration(e.Cfg.HorizonNs)
			if h <= 0 {
				h = time.Hour
			}
			tm := time.NewTimer(h)
			select {
			case <-e.RT.Arrival:
				tm.Stop()
			case <-tm.C:
				if w.Quiet(e) {
					e.stop = true
				}
			}
			continue
		}
		if e.Cfg.MaxSteps > 0 && e.step >= int64(e.Cfg.MaxSteps) {
			e.Inconclusive("step budget exhausted")
			break
		}
		e.wokePending = false
		for _, x := range P {
			if strings.HasSuffix(x.Point, "+woke") {
				e.wokePending = true
			}
		}
		g, sel := e.choose(P)
		if g.Name != e.last && e.last != "" {
			// preemptive switch iff the previous goroutine is still runnable
			for _, p := range P {
				if p.Name == e.last {
					e.Res.Preempt++
					break
				}
			}
		}
		e.last = g.Name
		e.step++
		e.sh.add(g.Name)
		e.sh.add(g.Point)
		if e.Tracing {
			var names []string
			for _, p := range P {
				names = append(names, p.Name)
			}
			e.Res.Trace = append(e.Res.Trace, fmt.Sprintf("[%d %v] run %s @%s   of %v", e.step, e.Now(), g.Name, g.Point, names))
		}
		var stall time.Duration
		if e.Cfg.StallPermille > 0 && e.Cfg.StallMaxNs > 0 && e.StallOK != nil && e.StallOK(g.Name, g.Point) {
			stall = time.Duration(e.draw(func() int64 {
				if e.rng.Intn(1000) < e.Cfg.StallPermille {
					return 1 + e.rng.I64n(e.Cfg.StallMaxNs)
				}
				return 0
			}))
			if stall < 0 || int64(stall) > e.Cfg.StallMaxNs {
				stall = 0
			}
			if stall > 0 {
				e.FaultFired("goroutine_stalled")
			}
		}
		e.RT.Release(g, zsimrt.Token{Sel: sel, Stall: stall})
	}
}

// ---------------------------------------------------------------------------
// RunCase executes one case inside a fresh bubble. It must be called from a
// test (synctest.Test needs *testing.T); see the harness' main_test.go.

type Runner struct {
	NewWorld func(c *Case) (World, error)
}

// Execute runs inside the bubble.
func ExecuteRec(c *Case, w World, runSeed uint64, replayTape []int64, replay bool, tracing bool) (*Result, []int64) {
	var env *Env
	res := execute(c, w, runSeed, replayTape, replay, tracing, &env)
	return res, env.Rec
}

// PreSetup runs inside the bubble before a world is set up (re-initialisation of
// package-level state of the code under test that depends on the clock).
var PreSetup func()

func execute(c *Case, w World, runSeed uint64, replayTape []int64, replay bool, tracing bool, envOut **Env) *Result {
	res := &Result{RunSeed: runSeed, Probes: map[string]int64{}, Faults: map[string]int64{}, Ops: c.NumOps()}
	e := &Env{Case: c, Cfg: c.Sched, Res: res, Start: time.Now(), Tracing: tracing}
	*envOut = e
	e.rng = NewRng(runSeed ^ 0x5eed5eed)
	e.Replay = replay
	e.replay = replayTape
	e.RT = zsimrt.Begin()
	e.RT.Seed = runSeed
	e.RT.OnPanic = func(name string, v any, stack []byte) {
		if e.OnPanic != nil {
			e.OnPanic(name, v, string(stack))
			return
		}
		e.HarnessError(fmt.Sprintf("panic in goroutine %s: %v\n%s", name, v, stack))
	}
	e.RT.OnRace = func(msg string) {
		// a map that can be read and written at once breaks whatever property the run is about
		e.Violate(c.Prop, "unsynchronised_access", "%s", msg)
	}
	defer zsimrt.End()
	func() {
		defer func() {
			if r := recover(); r != nil {
				e.HarnessError(fmt.Sprintf("panic on scheduler goroutine: %v\n%s", r, debug.Stack()))
			}
		}()
		zsimrt.SetDense(c.Sched.Dense)
		defer zsimrt.SetDense(false)
		zsimrt.SetAsyncTimers(c.Sched.OldTimers)
		defer zsimrt.SetAsyncTimers(false)
		if PreSetup != nil {
			PreSetup()
		}
		w.Setup(e)
		e.Loop(w)
	}()
	res.Steps = e.step
	res.SimNs = int64(e.Now())
	res.OpsDone = e.OpsDone
	res.SchedHash = e.sh.h
	res.MapChecks = e.RT.MapChecks
	if e.RT.StopsAfterFire > 0 {
		res.Probes["timer_stopped_after_it_had_fired"] += e.RT.StopsAfterFire
	}
	res.TraceHash = fmt.Sprintf("%016x", e.th.h^e.sh.h)
	// from here on goroutines are torn down: whatever they still report
	// (errors from closed pipes, aborted waits) is not part of the run
	e.frozen.Store(true)
	// abort everything that is left
	e.RT.Abort()
	func() {
		defer func() {
			if r := recover(); r != nil {
				e.HarnessError(fmt.Sprintf("panic in teardown: %v\n%s", r, debug.Stack()))
			}
		}()
		w.Teardown(e)
	}()
	for i := 0; i < 10000; i++ {
		synctest.Wait()
		pk := e.RT.Parked()
		if len(pk) == 0 {
			break
		}
		for _, g := range pk {
			e.RT.Release(g, zsimrt.Token{Abort: true})
		}
	}
	synctest.Wait()
	if n := e.RT.Live(); n > 0 {
		res.Dirty = true
		if res.HarnessError == "" && res.Inconclusive == "" && len(res.Violations) == 0 {
			res.HarnessError = "goroutines left after abort: " + strings.Join(e.RT.All(), "; ")
		}
	}
	res.MaxParkedNs = int64(e.RT.MaxParked)
	res.UncontrolledY = e.RT.UncontrolledY
	return res
}

// SortedKeys is a helper for deterministic iteration.
func SortedKeys[V any](m map[string]V) []string {
	ks := make([]string, 0, len(m))
	for k := range m {
		ks = append(ks, k)
	}
	sort.Strings(ks)
	return ks
}
