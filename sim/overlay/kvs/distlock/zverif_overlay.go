package dist

import "time"

// VerifSetLeaseTimeout sets the lease period used by providers created
// afterwards (test-only; scratch copy).
func VerifSetLeaseTimeout(d time.Duration) { defaultLeaseTimeout = d }

// VerifLeaseTimeout returns the current default lease period.
func VerifLeaseTimeout() time.Duration { return defaultLeaseTimeout }
