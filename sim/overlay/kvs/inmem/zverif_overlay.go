package inmem

import (
	"reflect"

	"github.com/acquirecloud/golibs/kvs"
	"github.com/acquirecloud/golibs/zsimrt"
)

// Test-only accessors (scratch copy). All are raw reads without locking and
// without lazy expiry: call them at quiescence only. They find what they need by
// reflection (any map keyed by string whose values are, point to or contain a
// kvs.Record is a record table), so that they survive a change of the storage's
// internal layout.

var recordType = reflect.TypeOf(kvs.Record{})

// VerifPeek returns the stored record as is.
func VerifPeek(s kvs.Storage, key string) (kvs.Record, bool) {
	var out kvs.Record
	found := false
	zsimrt.WalkMaps(s, func(m reflect.Value) {
		if found || m.Type().Key().Kind() != reflect.String {
			return
		}
		v := m.MapIndex(reflect.ValueOf(key).Convert(m.Type().Key()))
		if !v.IsValid() {
			return
		}
		if r, ok := zsimrt.FindTyped(v, recordType); ok {
			// copy field by field: v may carry reflect's read-only flag
			out = kvs.Record{Key: r.Field(0).String()}
			cp := reflect.New(recordType).Elem()
			for i := 0; i < r.NumField(); i++ {
				f := r.Field(i)
				switch f.Kind() {
				case reflect.String:
					cp.Field(i).SetString(f.String())
				case reflect.Slice:
					if !f.IsNil() {
						cp.Field(i).SetBytes(append([]byte(nil), f.Bytes()...))
					}
				case reflect.Ptr:
					if !f.IsNil() {
						cp.Field(i).Set(reflect.NewAt(f.Type().Elem(), f.UnsafePointer()))
					}
				}
			}
			out = cp.Interface().(kvs.Record)
			found = true
		}
	})
	return out, found
}

// VerifWaiters returns the size of the waiter table (maps keyed by string whose
// values are or point to a struct that holds a channel) and the sum of the
// registered waiter counts (an integer field called "waiters", else one per entry).
func VerifWaiters(s kvs.Storage) (int, int) {
	entries, registered := 0, 0
	zsimrt.WalkMaps(s, func(m reflect.Value) {
		if m.Type().Key().Kind() != reflect.String {
			return
		}
		et := m.Type().Elem()
		for et.Kind() == reflect.Ptr {
			et = et.Elem()
		}
		if et.Kind() != reflect.Struct || et == recordType {
			return
		}
		hasChan := false
		for i := 0; i < et.NumField(); i++ {
			if et.Field(i).Type.Kind() == reflect.Chan {
				hasChan = true
			}
		}
		if !hasChan {
			return
		}
		it := m.MapRange()
		for it.Next() {
			entries++
			if n, ok := zsimrt.IntField(it.Value(), "waiters"); ok {
				registered += n
			} else {
				registered++
			}
		}
	})
	return entries, registered
}
