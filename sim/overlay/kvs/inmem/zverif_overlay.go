package inmem

import "github.com/acquirecloud/golibs/kvs"

// Test-only accessors (scratch copy). All are raw reads without locking and
// without lazy expiry: call them at quiescence only.

// VerifPeek returns the stored record as is.
func VerifPeek(s kvs.Storage, key string) (kvs.Record, bool) {
	r, ok := s.(*service).recs[key]
	return r, ok
}

// VerifWaiters returns the size of the waiter table and the sum of the
// registered waiter counts.
func VerifWaiters(s kvs.Storage) (int, int) {
	n := 0
	for _, w := range s.(*service).verChange {
		n += w.waiters
	}
	return len(s.(*service).verChange), n
}

// VerifKeys returns the number of stored records (expired or not).
func VerifKeys(s kvs.Storage) int { return len(s.(*service).recs) }
