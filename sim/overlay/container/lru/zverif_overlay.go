package lru

import "github.com/acquirecloud/golibs/container/iterable"

// VerifState returns, without locking: resident entries, in-flight creations,
// whether the cache lock is held, list nodes reachable from the head and how
// many are pinned. Test-only (scratch copy); call at quiescence.
func VerifState[PK any, K comparable, V any](p *ECache[PK, K, V]) (resident, inflight int, held bool, nodes, pinned int) {
	nodes, pinned = iterable.VerifNodes(p.items)
	return iterable.VerifLen(p.items), len(p.inflight), p.lock.Held(), nodes, pinned
}
