package lru

import (
	"reflect"

	"github.com/acquirecloud/golibs/zsimrt"
)

// VerifState returns, without locking: resident entries, in-flight creations,
// whether the cache lock is held, list nodes reachable from the head of the
// recency list and how many of them are pinned by a reference count (nodes is
// -1 when the recency structure is not the iterable.Map list the C11 oracle
// knows how to walk). Test-only (scratch copy); found by reflection so that a
// change of the cache's internal layout does not break the harness build.
func VerifState[PK any, K comparable, V any](p *ECache[PK, K, V]) (resident, inflight int, held bool, nodes, pinned int) {
	nodes = -1
	if items, ok := zsimrt.Field(p, "items"); ok {
		resident, _ = zsimrt.LenOf(items)
		if head, ok := zsimrt.Field(items, "head"); ok {
			if n, pn, ok := zsimrt.ListWalk(head, "next", "refCnt"); ok {
				nodes, pinned = n, pn
			}
		}
	}
	if infl, ok := zsimrt.Field(p, "inflight"); ok {
		inflight, _ = zsimrt.LenOf(infl)
	}
	for _, name := range []string{"lock", "mu", "mtx"} {
		if l, ok := zsimrt.Field(p, name); ok && l.CanAddr() {
			if h, ok := l.Addr().Interface().(interface{ Held() bool }); ok {
				held = h.Held()
				break
			}
		}
	}
	_ = reflect.Value{}
	return
}
