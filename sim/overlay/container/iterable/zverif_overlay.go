package iterable

// VerifNodes walks the internal list from the head and returns the number of
// nodes reachable (including the trailing sentinel) and how many of them have
// a non-zero reference count. Test-only (scratch copy).
func VerifNodes[K comparable, V any](im *Map[K, V]) (nodes int, pinned int) {
	for p := im.head; p != nil; p = p.next {
		nodes++
		if p.refCnt != 0 {
			pinned++
		}
		if nodes > 1<<24 {
			break
		}
	}
	return
}

// VerifLen is Len() as a raw read (monitors look at the map without the owner's lock,
// which is fine between two scheduling points and must not count as an access of the library).
func VerifLen[K comparable, V any](im *Map[K, V]) int { return len(im.vals) }
