package timeout

import (
	"time"

	"github.com/acquirecloud/golibs/zsimrt"
)

// Test-only accessors added to the scratch copy by /verif (never to /repo).
// zverifInit is the package's own init body (the driver renames it), so the
// state is re-created by the package's own code inside the simulation bubble.
// Fields are found by name through reflection (a changed queue type must not
// break the harness build).

// VerifReset re-creates the package state and sets the two knobs.
func VerifReset(idle time.Duration, maxWorkers int) {
	zverifInit()
	if idle > 0 {
		zsimrt.SetIntField(cc, "idleTimeout", int64(idle))
	}
	if maxWorkers > 0 {
		zsimrt.SetIntField(cc, "maxWorkers", int64(maxWorkers))
	}
}

// VerifWatchers returns the number of worker goroutines the package believes
// it has. Read at quiescence only.
func VerifWatchers() int {
	n, _ := zsimrt.IntField(cc, "watchers")
	return n
}

// VerifPending returns the number of queued futures. Read at quiescence only.
func VerifPending() int {
	for _, name := range []string{"futures", "queue", "heap", "pending"} {
		if f, ok := zsimrt.Field(cc, name); ok {
			if n, ok := zsimrt.LenOf(f); ok {
				return n
			}
		}
	}
	return 0
}

// VerifKnobs returns the effective knobs.
func VerifKnobs() (time.Duration, int) {
	i, _ := zsimrt.IntField(cc, "idleTimeout")
	m, _ := zsimrt.IntField(cc, "maxWorkers")
	return time.Duration(i), m
}
