package timeout

import "time"

// Test-only accessors added to the scratch copy by /verif (never to /repo).
// zverifInit is the package's own init body (the driver renames it), so the
// state is re-created by the package's own code inside the simulation bubble.

// VerifReset re-creates the package state and sets the two knobs.
func VerifReset(idle time.Duration, maxWorkers int) {
	zverifInit()
	if idle > 0 {
		cc.idleTimeout = idle
	}
	if maxWorkers > 0 {
		cc.maxWorkers = maxWorkers
	}
}

// VerifWatchers returns the number of worker goroutines the package believes
// it has. Read at quiescence only.
func VerifWatchers() int { return cc.watchers }

// VerifPending returns the number of queued futures. Read at quiescence only.
func VerifPending() int { return cc.futures.Len() }

// VerifKnobs returns the effective knobs.
func VerifKnobs() (time.Duration, int) { return cc.idleTimeout, cc.maxWorkers }
