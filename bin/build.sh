#!/bin/bash
# build.sh <scratch dir>: copy /repo's working tree, instrument, overlay, build the harness test binary.
set -euo pipefail
export GOFLAGS=-mod=mod GOPROXY=off GOSUMDB=off GOTOOLCHAIN=local
S="$1"
V="$(cd "$(dirname "$0")/.." && pwd)"
mkdir -p "$S"
REPO="${DSIM_REPO:-/repo}"
rsync -a --delete --exclude .git "$REPO/" "$S/repo/"
mkdir -p "$S/repo/zsimrt"
cp $V/sim/zsimrt/*.go $V/sim/zsimrt/*.s "$S/repo/zsimrt/"
if [ ! -x $V/bin/instrument ] || [ $V/sim/instrument/main.go -nt $V/bin/instrument ]; then
  (cd $V/sim/instrument && go build -o $V/bin/instrument .)
fi
$V/bin/instrument -root "$S/repo" timeout kvs/inmem kvs/distlock kvs/redis container/lru container/iterable container/bytes chans ulidutils > "$S/instrument.jsonl"
# dependencies whose code the library runs WITHOUT a lock of its own are rewritten as well (version strings come
# from oklog/ulid: whether its entropy source is used in a thread-safe way is part of C02's "never handed out before")
ULID_SRC="$(cd "$S/repo" && go list -m -f '{{.Dir}}' github.com/oklog/ulid/v2)"
if [ -z "$ULID_SRC" ] || [ ! -f "$ULID_SRC/ulid.go" ]; then echo "build.sh: oklog/ulid source not found in the module cache" >&2; exit 2; fi
mkdir -p "$S/deps/ulid"
cp "$ULID_SRC/ulid.go" "$ULID_SRC/go.mod" "$S/deps/ulid/"
chmod -R u+w "$S/deps"
$V/bin/instrument -zerovars -root "$S/deps/ulid" . > "$S/instrument-deps.jsonl"
(cd $V/sim/overlay && find . -name '*.go' | while read f; do mkdir -p "$S/repo/$(dirname $f)"; cp "$f" "$S/repo/$f"; done)
python3 - "$S" <<'PY'
import sys
p=sys.argv[1]+'/repo/timeout/timeout.go'
s=open(p).read()
if 'func init() {' not in s:
    print('build.sh: timeout.go has no init() to rename', file=sys.stderr); sys.exit(2)
s=s.replace('func init() {','func init() { zverifInit() }\n\nfunc zverifInit() {',1)
open(p,'w').write(s)
PY
rsync -a --delete $V/sim/harness/ "$S/harness/"
cd "$S/harness"
cat "$REPO/go.sum" $V/sim/harness/go.sum.extra > go.sum
go1.26.8 test -c -trimpath -o "$S/harness.test" .
