# Per-property configuration of the driver.
REAL_TIMER = ['github.com/acquirecloud/golibs/timeout (rewritten copy of the current working tree: cooperative mutex, tape-driven select, zsimrt.Go)']
SIM_COMMON = ['goroutine scheduling (seeded scheduler over zsimrt yields)', 'clock and timers (testing/synctest fake clock, moved only by the scheduler)']

PROPS = {
    'C12': dict(world='timer',
                quick=dict(budget_s=20), thorough=dict(budget_s=600),
                real=REAL_TIMER, simulated=SIM_COMMON + ['callbacks (harness functions that record, stall simulated time, call Call/Cancel)'],
                assumptions=['scheduler fairness bound F (a runnable goroutine is released after at most F draws)',
                             'interleavings at yield granularity (lock, channel, atomic, select); plain memory accesses between two yields are atomic',
                             'Go 1.23+ timer-channel semantics (harness main module)']),
    'C13': dict(world='timer',
                quick=dict(budget_s=20), thorough=dict(budget_s=600),
                real=REAL_TIMER, simulated=SIM_COMMON + ['callbacks (prompt harness functions)'],
                assumptions=['scheduler fairness bound F', 'lateness slack L = 4 x the longest time the scheduler itself kept any goroutine parked in the run + 1us (measured, not a constant)',
                             'wind-down is awaited for 10 x idle timeout + 1s of simulated inactivity (the property states no bound)']),
}
