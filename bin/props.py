# Per-property configuration of the driver.
REAL_TIMER = ['github.com/acquirecloud/golibs/timeout (rewritten copy of the current working tree: cooperative mutex, tape-driven select, zsimrt.Go)']
SIM_COMMON = ['goroutine scheduling (seeded scheduler over zsimrt yields; in 1/8 of the runs a scheduling point before every statement, read-modify-write statements split into load/store)', 'clock and timers (testing/synctest fake clock, moved only by the scheduler; timer channels with the semantics of Go >= 1.23 or, in 1/3 of the runs, of earlier releases)', 'lock discipline monitor (lockset per map held in a struct field and per object documented as unsafe for concurrent use)']

REAL_LOCK = ['kvs/distlock (rewritten copy)', 'kvs/inmem (rewritten copy) or kvs/redis + go-redis + miniredis as the shared storage', 'timeout (rewritten copy) for lease timers, shared with background users in some runs', 'chans (rewritten copy)', 'oklog/ulid (rewritten copy of the dependency)']
SIM_LOCK = SIM_COMMON + ['storage seam: per-node kvs.Storage wrapper that parks before and after every call and injects request-lost / reply-lost / partition / stall faults by call ordinal, slow replies, wrapped errors, failures as plain errors or gRPC status errors, a storage that ignores the context of its short calls (some runs), outages of one node', 'context cancellation (canceller tasks released by the scheduler, or simulated timers)']
ASSUME_LOCK = ['scheduler fairness bound F', 'interleavings at yield granularity (storage call boundaries, lock/channel/atomic/select inside distlock, inmem, timeout)', 'per-step jitter is capped at lease/(16*F) so the scheduler cannot starve a renewal past its lease']

REAL_KV = ['kvs/inmem (rewritten copy)', 'kvs/redis client code (rewritten copy) + the real go-redis v8 client', 'ulidutils (rewritten copy) + oklog/ulid (rewritten copy of the dependency: version generation)']
SIM_KV = SIM_COMMON + ['Redis server: in-process miniredis (command semantics are its own), TCP listener closed', 'network: net.Pipe pairs with pump goroutines that park before every command delivery and every reply (command-level interleaving between connections; optional latency per command)', 'Redis TTL clock: slaved to the simulated clock before every delivered command (optionally skewed)', 'stalled threads: callers inside WaitForVersionChange that get no processor for up to seconds of simulated time (some runs)', 'Redis server that answers with error replies for a while (some C07 runs)', 'lost requests and replies with the connection breaking (some C02 runs)', 'SCAN answered in pages by the command pump, empty pages included (a third of the Redis runs)', 'callers that overwrite their value buffers after every call (a quarter of the runs)']
ASSUME_KV = ['scheduler fairness bound F', 'interleavings at yield granularity: every lock/select/channel point in inmem; every command and reply delivery for Redis', 'miniredis stands in for Redis (as in the repository\'s own tests)']

REAL_LRU = ['container/lru (rewritten copy: cooperative mutex, in-flight channel wait through zsimrt.Recv)', 'container/iterable Map (rewritten copy; test-only node counter)']
SIM_LRU = SIM_COMMON + ['create function and delete callback (harness functions: park at entry/exit, sleep simulated time, fail by plan - error, panic or runtime.Goexit -, record arguments; some caches are built without a delete callback)']

PROPS = {
    'C17': dict(world='blocks', quick=dict(budget_s=22), thorough=dict(budget_s=600),
                real=['container/bytes.Blocks (rewritten copy: cooperative mutex, yields at atomics)', 'files.MMFile on a real file in the scratch directory (part of the runs)'],
                simulated=SIM_COMMON + ['disk: SimBuffer, a byte slice behind bytes.Buffer that parks on every Buffer() call, fails planned calls and is snapshotted (= the bytes a crashed process leaves behind) at arbitrary steps, including steps with operations in flight, and that moves its memory (reallocation) under the live allocator in some single-task runs'],
                assumptions=['scheduler fairness bound F', 'block sizes 1..64 in the quick tier; 128..1024 and 4096 (one segment, few runs) in the thorough tier; 8192 and 12288 are not run (a segment is 0.5-1.2 GiB)', 'a reopened snapshot must equal the model give or take the operations in flight at the snapshot']),
    'C08': dict(world='lru', quick=dict(budget_s=15), thorough=dict(budget_s=420), real=REAL_LRU, simulated=SIM_LRU,
                assumptions=['one task: the scheduler has nothing to choose; what is sampled is call sequences, capacities 1-4 and 64, create-function failures and clock jumps (ExpirableCache)', 'expiry instants and jump sizes never coincide exactly']),
    'C09': dict(world='lru', quick=dict(budget_s=22), thorough=dict(budget_s=600), real=REAL_LRU, simulated=SIM_LRU,
                assumptions=['scheduler fairness bound F', 'interleavings at yield granularity: cache lock acquisitions, the in-flight channel, create-function entry/exit', 'evictions are attributed to the operation on whose goroutine the delete callback ran']),
    'C11': dict(world='lru', quick=dict(budget_s=22), thorough=dict(budget_s=600), real=REAL_LRU, simulated=SIM_LRU,
                assumptions=['scoped to histories driven through the LRU cache (C08/C09 worlds plus a long-history mode); maps with user-held iterators are not covered', 'cost growth is decided through the list-node count, not by wall-clock measurement']),
    'C02': dict(world='kv', quick=dict(budget_s=22), thorough=dict(budget_s=600), real=REAL_KV, simulated=SIM_KV,
                assumptions=ASSUME_KV + ['histories are checked per key by porcupine against a sequential KV model (multi-key calls contribute one sub-operation per key); a timed-out check is counted inconclusive, never a violation']),
    'C03': dict(world='kv', quick=dict(budget_s=22), thorough=dict(budget_s=600), real=REAL_KV, simulated=SIM_KV,
                assumptions=ASSUME_KV + ['one client, no faults: the scheduler has nothing to choose on inmem; on Redis it orders command/reply deliveries of one connection', 'keys with a leading / are not generated (the Redis backend normalises them)', 'patterns restricted to the subset on which gobwas/glob and Redis globbing agree']),
    'C06': dict(world='kv', quick=dict(budget_s=22), thorough=dict(budget_s=600), real=REAL_KV, simulated=SIM_KV,
                assumptions=ASSUME_KV + ['within +-2ms of an expiry instant either answer is accepted (the backends legitimately differ at the boundary); the number of such comparisons is reported']),
    'C07': dict(world='kv', quick=dict(budget_s=22), thorough=dict(budget_s=600), real=REAL_KV, simulated=SIM_KV,
                assumptions=ASSUME_KV + ['writers are serialised by the harness (one mutation in flight) so the sequence of store states is known', 'promptness: inmem - a waiter whose return condition holds must not be parked when nothing is runnable; Redis - it must return within 250ms (2.5 x the documented maximal poll interval) plus the scheduler\'s own measured stall']),
    'C01': dict(world='lock', quick=dict(budget_s=22), thorough=dict(budget_s=600), real=REAL_LOCK, simulated=SIM_LOCK,
                assumptions=ASSUME_LOCK + ['exclusion is judged only while the lease written by the holder is still valid (precondition of the property); runs where it lapsed are counted precondition_void']),
    'C04': dict(world='lock', quick=dict(budget_s=22), thorough=dict(budget_s=600), real=REAL_LOCK, simulated=SIM_LOCK,
                assumptions=ASSUME_LOCK + ['no storage faults in this world; progress is judged after 3 x lease + the program\'s own sleeps + 1 min of simulated time without any completed operation, or at the quiet horizon']),
    'C05': dict(world='lock', quick=dict(budget_s=22), thorough=dict(budget_s=600), real=REAL_LOCK, simulated=SIM_LOCK,
                assumptions=ASSUME_LOCK + ['take-over after holder death is awaited 2 x lease (the property says about one lease period)', 'only request-lost renewal errors are injected (a reply-lost renewal changes the version behind the holder\'s back, which the statement does not cover)']),
    'C12': dict(world='timer',
                quick=dict(budget_s=20), thorough=dict(budget_s=600),
                real=REAL_TIMER, simulated=SIM_COMMON + ['callbacks (harness functions that record, stall simulated time, call Call/Cancel)'],
                assumptions=['scheduler fairness bound F (a runnable goroutine is released after at most F draws)',
                             'interleavings at yield granularity (lock, channel, atomic, select); plain memory accesses between two yields are atomic',
                             'Go 1.23+ timer-channel semantics (harness main module)']),
    'C13': dict(world='timer',
                quick=dict(budget_s=20), thorough=dict(budget_s=600),
                real=REAL_TIMER, simulated=SIM_COMMON + ['callbacks (prompt harness functions)'],
                assumptions=['scheduler fairness bound F', 'lateness slack L = 4 x the longest time the scheduler itself kept any goroutine parked in the run + 1us (measured, not a constant)',
                             'wind-down is awaited for 10 x idle timeout + 1s of simulated inactivity (the property states no bound)']),
}
